#!/usr/bin/env python3
"""Regenerate /verif/MANIFEST.json from the table below (run after adding a check)."""
import json
import os

HERE = os.path.dirname(os.path.dirname(os.path.abspath(__file__)))

T_E1 = 'explicit-state exhaustive enumeration (bounded signature universe x operation arguments x call alphabet) with binder-model/CPython conformance replay'
T_E2 = 'explicit-state breadth-first search over the real algebra operations (states = canonical signatures, deduplicated) with invariants on every state and transition'
T_E3 = 'exhaustive enumeration of a finite program grammar, each program materialised, retrieved and executed on every call shape; forwarding-model/implementation conformance replay'
T_E4 = 'exhaustive fault-point enumeration: an exception injected at every boundary crossing of a retrieval x exception menu, on the real code'
T_E5 = 'stateless model checking of real threads under a controlled line-granularity scheduler, iterative context bounding (all schedules up to a pre-emption bound)'
T_E6 = 'explicit-state breadth-first search over operation histories on live objects (replayed on fresh objects, canonical-form deduplication)'

TRUST = 'Trusted: CPython argument binding / inspect as ground truth, the enumeration bounds recorded in the evidence file; nothing is claimed above the bounds.'

CHECKS = {
    'C01': ('Every tuple of signatures of a finite universe x every call shape of a finite alphabet, run through the real merge(); acceptance decided by a binder model replayed against CPython in the same run.', T_E1, 'section 4 C01'),
    'C02': ('Every (outer, inner) pair x use_* combination x call shape through the real embed(), compared with the forwarding model F; triples for the fold law, bare outer for identity.', T_E1, 'section 4 C02'),
    'C03': ('Every signature x n x ordered name tuple x 16 flag combinations x call shape through the real mask(): exactness, raise-iff, order independence, additivity, flag clauses.', T_E1, 'section 4 C03'),
    'C04': ('forwards() == embed(mask()) over an exhaustive product, plus every wrapper program of a finite grammar declared with forwards_to_* really executed on every call shape.', T_E3, 'section 4 C04'),
    'C05': ('Every program of a finite forwarding grammar (shapes x argument shapes x contexts x routes x taints) written to real files, discovered by sigtools.signature and executed on every non-colliding call shape.', T_E3, 'section 4 C05'),
    'C06': ('Same program space; discovered signature and provenance compared with the explicit declaration computed from the generator ground truth through the public algebra; metamorphic groups must agree.', T_E3, 'section 4 C06'),
    'C07': ('Every callable of the importable corpus (stdlib + installed packages + sigtools) x three retrieval modes compared with inspect, plus a grammar of adversarial sources, sourced forwarders under every shape of module globals, recursive / ill-bound / unhashable callables, arbitrary and non-evaluating annotations; sphinx hook on every dotted name.', T_E3, 'section 4 C07'),
    'C08': ('Provenance invariant evaluated in every state and on every transition of a breadth-first search over the real algebra operations, and on every discovery result of the program grammar.', T_E2, 'section 4 C08'),
    'C09': ('Every name-aligned position-consistent pair / triple x call alphabet for precision; every signature for the identity, neutral-element, round-trip and fold laws.', T_E1, 'section 4 C09'),
    'C10': ('Every result of merge/embed/forwards/partial over the universe extended with distinct default and annotation values, checked against the stated metadata rules.', T_E1, 'section 4 C10'),
    'C11': ('Every operation x annotated subset x eager/postponed compile mode x shared/per-function globals configuration; source_value()/evaluated() compared with the defining context.', T_E1, 'section 4 C11'),
    'C12': ('Every function of the universe x every selection of names for every decorator form, decorated for real and called on every call shape with distinguishable values, compared with an independent expected-signature model bound through inspect.', T_E1, 'section 4 C12'),
    'C13': ('Every decorator function x decorated function x stack depth x placement of a finite grammar, really built and called on every call shape, compared with the hand-written composition.', T_E3, 'section 4 C13'),
    'C14': ('Every signature reached by the algebra BFS and by discovery x call shapes (bind/bind_partial/str) x a menagerie of comparison partners; equality/hash laws.', T_E2, 'section 4 C14'),
    'C15': ('Every input tuple (role-inconsistent included) x operation arguments x flags through merge/embed/mask/forwards, upgraded and plain: only ValueError escapes, results re-validate.', T_E1, 'section 4 C15'),
    'C16': ('Deep snapshots around every algebra transition of the BFS; for retrieval an exception injected at every successive crossing from sigtools into outside code x exception menu x scenarios, state compared before/after.', T_E4, 'section 4 C16'),
    'C17': ('Two/three real threads retrieving signatures of shared objects under a deterministic scheduler: every interleaving up to 2 pre-emptions at sigtools line granularity, each compared with the sequential answer.', T_E5, 'section 4 C17'),
    'C18': ('Every permutation of admissible modifier applications per function (signature + call behaviour), and every history of <= 6 operations over live decorated objects with weakref-observed reclamation.', T_E6, 'section 4 C18'),
    'C19': ('Every function of the universe x every (count, names) partial binding, nested partials, partials of forwarding wrappers; reported signature compared with really calling the partial on every call shape.', T_E1, 'section 4 C19'),
    'C20': ('Every signature of the universe (with defaults/annotations) x read_sig option combinations x call shapes with distinguishable values through s/f/func_from_sig/bind_callsig/sort_callsigs/make_up_callsigs.', T_E1, 'section 4 C20'),
}


def built():
    return sorted(f[:-3].upper() for f in os.listdir(os.path.join(HERE, 'vf', 'props'))
                  if f.startswith('c') and f.endswith('.py') and f[1:-3].isdigit())


def main():
    have = built()
    na_reasons = {}
    path = os.path.join(HERE, 'tools', 'not_applicable.json')
    if os.path.exists(path):
        na_reasons = json.load(open(path))
    checks = []
    for pid in have:
        if pid in na_reasons:
            continue
        text, tech, ref = CHECKS[pid]
        checks.append({
            'property_id': pid,
            'quick_cmd': './vcheck %s --tier quick' % pid,
            'thorough_cmd': './vcheck %s --tier thorough' % pid,
            'evidence_file': '/verif/evidence/%s.json' % pid,
            'replay_cmd_template': './vcheck --replay {path}',
            'engine': 'vf',
            'level_claimed': {'category': 'model_checking', 'text': text, 'design_ref': 'DESIGN.md ' + ref},
            'level_note': TRUST,
            'technique': tech,
        })
    na = [{'property_id': p, 'reason': na_reasons.get(p, 'check not built yet (work in progress; see DESIGN.md section 4)')}
          for p in sorted(CHECKS) if p not in [c['property_id'] for c in checks]]
    m = {
        'version': 1,
        'setup_cmd': "mkdir -p /verif/evidence /verif/out && /venv/bin/python -c 'import sys; assert sys.version_info[:2] >= (3, 8)'",
        'hooks': {
            'guard': 'SIGTOOLS_VERIF',
            'enable': 'no source hooks are needed: checks drive the unmodified library through sys.settrace / sys.setprofile '
                      'and generated files; ./vcheck exports SIGTOOLS_VERIF=1 only for symmetry',
            'baseline_off_cmd': 'cd /repo && /venv/bin/python -m pytest -ra -q -p no:cacheprovider --timeout=900 --continue-on-collection-errors',
            'source_commits': [],
            'add_only': True,
        },
        'engines': [{'name': 'vf', 'path': '/verif/vf', 'serves_properties': [c['property_id'] for c in checks],
                     'kind_free_text': 'hand-written explicit-state / stateless bounded-exhaustive explorers in Python '
                                       'driving the real sigtools code (E1 product enumerator, E2 term BFS, E3 program '
                                       'grammar, E4 fault points, E5 schedule explorer, E6 history BFS)'}],
        'checks': checks,
        'not_applicable': na,
        'notes': 'See DESIGN.md. Exit codes: 0 held / known findings only, 1 violation (VIOLATION line), 2 harness error. '
                 'Known findings: known_findings.json. Seeded changes: seeded/. ',
    }
    with open(os.path.join(HERE, 'MANIFEST.json'), 'w') as f:
        json.dump(m, f, indent=1)
        f.write('\n')
    print('MANIFEST.json: %d checks, %d not_applicable' % (len(checks), len(na)))


if __name__ == '__main__':
    main()
