#!/bin/bash
# runs every thorough tier in turn, printing the verdict line and wall time of each
cd "$(dirname "$0")/.."
for p in ${@:-C20 C19 C12 C07 C10 C11 C09 C03 C06 C05 C18 C13 C14 C08 C16 C02 C01 C15 C04 C17}; do
  s=$(date +%s)
  out=$(timeout 5h ./vcheck $p --tier thorough 2>&1); rc=$?
  echo "== $p rc=$rc $(( $(date +%s) - s ))s"; echo "$out" | grep -E "^(VIOLATION|HARNESS|  kind)" | head -6 | cut -c1-400; echo "$out" | tail -1 | cut -c1-300
done
