#!/bin/bash
# For every fix: commit recorded in known_findings.json: revert it in a scratch worktree and run the property's quick
# check -- it must report the violation again.  Prints one markdown row per fix.
cd "$(dirname "$0")/.."
echo "| finding | property | commit | revert applies | check rc | violation lines | first kind |"
echo "|---|---|---|---|---|---|---|"
python3 - <<'P' > /tmp/.reverts.$$
import json
for e in json.load(open('known_findings.json'))['findings']:
    if e['status'] == 'fixed':
        print(e['id'], e['property'], e['commit'])
P
while read id prop commit; do
  out=$(MUT_LINES=3 tools/mut.sh -R:$commit quick $prop 2>&1)
  if echo "$out" | grep -q "cannot reverse"; then echo "| $id | $prop | $commit | NO (later commits changed the same lines) | | | |"; continue; fi
  rc=$(echo "$out" | grep "^== $prop" | sed 's/.*rc=\([0-9]*\).*/\1/'); nv=$(echo "$out" | grep "^== $prop" | sed 's/.*rc=[0-9]* \([0-9]*\) viol.*/\1/')
  kind=$(echo "$out" | grep "kind=" | head -1 | sed 's/.*kind=\([a-zA-Z0-9_-]*\).*/\1/')
  echo "| $id | $prop | $commit | yes | $rc | $nv | $kind |"
done < /tmp/.reverts.$$
rm -f /tmp/.reverts.$$
