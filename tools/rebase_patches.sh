#!/bin/bash
# usage: tools/rebase_patches.sh <dir with patch.diff> ...
# Re-bases seeded patches that stopped applying after a fix: commit changed their context: applies them with fuzz in a
# scratch worktree of /repo HEAD, keeps the original as patch_original.diff and writes the refreshed diff.
for d in "$@"; do
  d=$(cd "$d" && pwd)
  wt=$(mktemp -d /tmp/vfreb.XXXXXX); rmdir "$wt"
  git -C /repo worktree add -q --detach "$wt" HEAD || exit 3
  if git -C "$wt" apply --check "$d/patch.diff" 2>/dev/null; then echo "$d: applies as is"
  elif (cd "$wt" && patch -p1 -F3 -s --no-backup-if-mismatch < "$d/patch.diff" >/dev/null 2>&1) && [ -z "$(find "$wt" -name '*.rej')" ]; then
    [ -f "$d/patch_original.diff" ] || cp "$d/patch.diff" "$d/patch_original.diff"
    git -C "$wt" diff > "$d/patch.diff"
    (cd "$wt" && /venv/bin/python -c "import sigtools, sigtools.modifiers, sigtools.wrappers, sigtools.support, sigtools.sphinxext" 2>&1 | tail -1)
    echo "$d: re-based"
  else echo "$d: NEEDS MANUAL RE-BASE"; fi
  git -C /repo worktree remove --force "$wt"; rm -rf "$wt"
done
