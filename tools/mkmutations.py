#!/usr/bin/env python3
"""Regenerate /verif/MUTATIONS.md from seeded/*/meta.json (+ the last seeds_verify table, if notes/seeds_verify.md exists)."""
import glob, json, os
HERE = os.path.dirname(os.path.dirname(os.path.abspath(__file__)))
rows = []
for d in sorted(glob.glob(os.path.join(HERE, 'seeded', '*'))):
    m = json.load(open(os.path.join(d, 'meta.json')))
    rows.append(m)
verify = {}
vp = os.path.join(HERE, 'notes', 'seeds_verify.md')
if os.path.exists(vp):
    for ln in open(vp):
        parts = [x.strip() for x in ln.strip().strip('|').split('|')]
        if len(parts) >= 8 and parts[0] not in ('seed', '---'):
            verify[parts[0]] = parts
out = []
out.append('# Seeded property-breaking changes and what catches them\n')
out.append('Every change below was written by an independent sub-agent that saw only the text of one property and a scratch '
           'worktree of /repo (nothing from /verif), keeps the 294 baseline tests green, and comes with a demonstration '
           '(`demo.py`: exit 0 on the unchanged tree, non-zero with the change). Each was confirmed here in a fresh scratch '
           'worktree. `Cxx-m1/m2` are the first wave, `Cxx-m3/m4` the second, `Cxx-m5/m6` the third, `Cxx-m7/m8` the fourth, `Cxx-m9/m10` the fifth (the authors of the later waves '
           'were told in a few lines what the earlier changes for their property did, to avoid repeats). To re-run one: `tools/seedcheck.sh seeded/<id> quick <property>`; all of '
           'them: `tools/seeds_verify.sh`.\n')
missed = [m for m in rows if 'MISSED' in m['checks_run'] or 'harness error' in m['checks_run']]
out.append('Summary: %d changes, %d caught by the first run of the property\'s check, %d first missed (or first ending in a '
           'harness error) and caught after the extension named in the row.\n' % (len(rows), len(rows) - len(missed), len(missed)))
out.append('| seed | property | needs, in order to manifest | result of running the check(s) | last re-verification (check rc / first violation kind) |')
out.append('|---|---|---|---|---|')
for m in rows:
    v = verify.get(m['id'])
    vtxt = '' if not v else ('patch does not apply' if v[2] == 'NO' else 'rc=%s %s' % (v[5], v[7]))
    out.append('| %s | %s | %s | %s | %s |' % (m['id'], m['breaks_property'], m['needs_to_manifest'].replace('|', '/'),
                                              m['checks_run'].replace('|', '/'), vtxt))
out.append('')
out.append('## Reverse direction: fixes reverted\n')
out.append('For the defects repaired in /repo during this work the check was also run against the tree with the fix '
           'reverted (`tools/mut.sh -R:<commit> quick <property>`); it reports the violation again (see DESIGN.md section 5 '
           'for the list of fixes and `notes/reverts.md` for the last run).\n')
open(os.path.join(HERE, 'MUTATIONS.md'), 'w').write('\n'.join(out) + '\n')
print('MUTATIONS.md: %d seeds, %d first missed' % (len(rows), len(missed)))
