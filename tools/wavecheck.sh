#!/bin/bash
# usage: tools/wavecheck.sh <outdir with Cxx/mK/{patch.diff,demo.py}> [Cxx ...]
# runs the property's quick check against every change of a wave; one line per change
root="$1"; shift
cd "$(dirname "$0")/.."
props="${@:-$(ls $root | grep '^C[0-9]')}"
for p in $props; do
  for m in $root/$p/m*; do
    [ -f $m/patch.diff ] || continue
    out=$(SKIP_SUITE=1 MUT_LINES=3 tools/seedcheck.sh $m quick $p 2>&1 | grep -v '^KNOWN')
    d0=$(echo "$out" | grep "demo without" | sed 's/.*rc=//'); d1=$(echo "$out" | grep "demo with change" | sed 's/.*rc=//')
    rc=$(echo "$out" | grep "^== $p" | sed 's/.*rc=\([0-9]*\).*/\1/')
    kind=$(echo "$out" | grep "kind=" | head -1 | sed 's/.*kind=\([a-zA-Z0-9_-]*\).*/\1/')
    echo "$p/$(basename $m) demo=$d0/$d1 check_rc=$rc $kind $(echo "$out" | grep -E 'does not apply|HARNESS' | head -1 | cut -c1-80)"
  done
done
