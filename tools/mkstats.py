#!/usr/bin/env python3
"""Refresh the table of quick-tier numbers in DESIGN.md (between the STATS markers) from the committed evidence files."""
import json, os, re
HERE = os.path.dirname(os.path.dirname(os.path.abspath(__file__)))
rows = ['| check | tier | states | transitions | validated against the implementation | distinct non-trivial outcomes | violations / known findings | wall |',
        '|---|---|---|---|---|---|---|---|']
for i in range(1, 21):
    pid = 'C%02d' % i
    d = json.load(open(os.path.join(HERE, 'evidence', pid + '.json')))
    cov = d.get('coverage', {})
    res = d.get('result', {}) if isinstance(d.get('result'), dict) else {}
    viol = d.get('violations', res.get('violations', '?'))
    known = len(cov.get('known_findings_matched', []))
    if isinstance(viol, list):
        viol = len(viol)
    if isinstance(known, list):
        known = len(known)
    rows.append('| %s | %s | %s | %s | %s | %s | %s / %s | %s s |' % (
        pid, d.get('tier', '?'), cov.get('states', '?'), cov.get('transitions', '?'), cov.get('traces_validated_against_impl', '?'),
        cov.get('distinct_nontrivial', '?'), viol, known, d.get('wall_s', '?')))
p = os.path.join(HERE, 'DESIGN.md')
s = open(p).read()
block = '<!-- STATS:BEGIN -->\n' + '\n'.join(rows) + '\n<!-- STATS:END -->'
if '<!-- STATS:BEGIN -->' in s:
    s = re.sub(r'<!-- STATS:BEGIN -->.*?<!-- STATS:END -->', lambda m: block, s, flags=re.S)
else:
    raise SystemExit('no STATS markers in DESIGN.md')
open(p, 'w').write(s)
print('\n'.join(rows))
