#!/bin/bash
# usage: tools/seedcheck.sh <dir with patch.diff + demo.py> <tier> <PROP> [<PROP>...]
# Confirms a seeded change in a scratch worktree (outside /repo and /verif): baseline suite still green with the
# change, demo fails with it and passes without it; then runs the named checks against the changed tree.
set -u
dir="$(cd "$1" && pwd)"; tier="$2"; shift 2
wt=$(mktemp -d /tmp/vfseed.XXXXXX); rmdir "$wt"
git -C /repo worktree add -q --detach "$wt" HEAD || exit 3
cleanup() { git -C /repo worktree remove --force "$wt" 2>/dev/null; rm -rf "$wt" "$demo"; }
trap cleanup EXIT
demo=$(mktemp /tmp/vfdemo.XXXXXX.py); sed "s#/tmp/seed/C[0-9][0-9]#$wt#g" "$dir/demo.py" > "$demo"
( cd "$wt" && PYTHONPATH="$wt" /venv/bin/python "$demo" >/dev/null 2>&1 ); echo "demo without change: rc=$?"
git -C "$wt" apply "$dir/patch.diff" || { echo "patch does not apply"; exit 3; }
( cd "$wt" && PYTHONPATH="$wt" /venv/bin/python "$demo" >/dev/null 2>&1 ); echo "demo with change:    rc=$?"
if [ -z "${SKIP_SUITE:-}" ]; then
  ( cd "$wt" && /venv/bin/python -m pytest -q -p no:cacheprovider --timeout=900 --continue-on-collection-errors 2>&1 | tail -1 )
fi
cd "$(dirname "$0")/.."
for p in "$@"; do
  out=$(VF_REPO="$wt" VF_OUT="$wt/.vfout" ./vcheck "$p" --tier "$tier" 2>&1); rc=$?
  echo "== $p rc=$rc $(echo "$out" | grep -c '^VIOLATION') violation line(s)"
  echo "$out" | grep -E '^(VIOLATION|  kind|KNOWN|HARNESS)' | head -${MUT_LINES:-4}
done
