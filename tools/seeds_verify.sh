#!/bin/bash
# Re-confirms every seeded change against the current /repo HEAD: patch applies, demo passes without / fails with it,
# baseline suite unchanged, and the property's quick check reports a VIOLATION.  Prints one markdown table row each.
cd "$(dirname "$0")/.."
echo "| seed | property | patch applies | demo without / with | suite | check rc | violation lines | first kind |"
echo "|---|---|---|---|---|---|---|---|"
for d in seeded/*/; do
  id=$(basename "$d")
  prop=$(python3 -c "import json;print(json.load(open('$d/meta.json'))['breaks_property'])")
  out=$(MUT_LINES=3 tools/seedcheck.sh "$d" quick "$prop" 2>&1)
  if echo "$out" | grep -q "patch does not apply"; then echo "| $id | $prop | NO | | | | | |"; continue; fi
  d0=$(echo "$out" | grep "demo without" | sed 's/.*rc=//'); d1=$(echo "$out" | grep "demo with change" | sed 's/.*rc=//')
  suite=$(echo "$out" | grep -E "passed" | head -1 | sed 's/ in .*//')
  rc=$(echo "$out" | grep "^== $prop" | sed 's/.*rc=\([0-9]*\).*/\1/'); nv=$(echo "$out" | grep "^== $prop" | sed 's/.*rc=[0-9]* \([0-9]*\) viol.*/\1/')
  kind=$(echo "$out" | grep "kind=" | head -1 | sed 's/.*kind=\([a-zA-Z0-9_-]*\).*/\1/')
  echo "| $id | $prop | yes | $d0 / $d1 | $suite | $rc | $nv | $kind |"
done
