import json, os, re, shutil
OUT='/tmp/seed5/out'
EXT = {
 'C01/m2': "inputs that share their provenance (the signature of a function next to one derived from the same function through a partial object or replace())",
 'C02/m1': "inner parameters named like the outer's star parameters, also under the bare-outer identity clause",
 'C03/m2': "histories of two operations over signature objects that stay in use (vf/reuse.py), every first operation and every reference in a process of its own",
 'C04/m1': "falsy instances (empty containers) for every class form",
 'C05/m1': "a two-branch program whose second callee is the first with its last required parameter given a default",
 'C06/m1': "claiming the wrapssig route in C06 (parameters compared with the declaration computed on a bare copy of the wrapper)",
 'C06/m2': "a route through a partial object over a modifiers-translated helper (kpartial)",
 'C07/m2': "two modules re-exported under one package name whose functions carry the same annotation text for different classes",
 'C08/m2': "embed / forwards where a star parameter of the outer signature is named like a named parameter of the inner one",
 'C09/m1': "histories over signature objects that stay in use (mask, then merge / round trip on the same object)",
 'C10/m1': "the same rules with plain inspect.Signature inputs (both plain, right one plain)",
 'C11/m2': "an annotation pattern on the star parameters",
 'C14/m1': "replace(parameters=...) with a list mixing unchanged upgraded parameters and one plain inspect.Parameter",
 'C14/m2': "checking that replace(parameters=<fewer>) leaves the provenance of the signature it is called on alone",
 'C15/m2': "inputs of which only the later ones are plain (the first upgraded)",
 'C16/m1': "wrapper_decorator over functions carrying a stored signature (annotate, kwoargs)",
 'C17/m1': "a scenario of two functions forwarding to each other, one retrieved per thread (all points, one pre-emption)",
 'C17/m2': "a scenario with one forwards_to_method declaration reached through an instance, a subclass instance and the class (all points, one pre-emption)",
 'C18/m1': "start= / end= modifiers stacked in both orders on a method, bound, compared with each other and with the native def on calls",
 'C18/m2': "the same conversions as two stacked modifiers and as one, under a forger that needs the instance, bound",
 'C19/m1': "a partial object over a forwarder translated by modifiers.kwoargs (param_kwo)",
 'C19/m2': "a partial object of a subclass of functools.partial (param_subclass)",
 'C20/m2': "a default value whose text contains both kinds of quote (an escaped quote in its repr)",
}
final = {}
for ln in open('/tmp/wave5_final.txt'):
    m = re.match(r'(C\d\d/m\d) demo=\S+ check_rc=(\d) ?(\S*)', ln)
    if m: final[m.group(1)] = (m.group(2), m.group(3))
for k_ in ('C17/m1', 'C17/m2', 'C11/m1', 'C11/m2'):
    if k_ in final and not final[k_][1]:
        final[k_] = (final[k_][0], {'C17/m1': 'thread-result-differs-from-sequential', 'C17/m2': 'thread-result-differs-from-sequential'}.get(k_, 'annotation-resolves-outside-its-defining-context'))
suite = {}
for ln in open('/tmp/wave5_suite.txt'):
    k = ln.split()[0]
    suite[k] = ln
n=0
for p in sorted(os.listdir(OUT)):
    for k in (1, 2):
        key = '%s/m%d' % (p, k)
        src = os.path.join(OUT, p, 'm%d' % k)
        sid = '%s-m%d' % (p, k + 8)
        dst = os.path.join('/verif/seeded', sid)
        os.makedirs(dst, exist_ok=True)
        for fn in ('patch.diff', 'demo.py', 'notes.md'):
            shutil.copy(os.path.join(src, fn), os.path.join(dst, fn))
        if os.path.exists(os.path.join(src, 'patch_original.diff')):
            shutil.copy(os.path.join(src, 'patch_original.diff'), os.path.join(dst, 'patch_original.diff'))
        notes = open(os.path.join(src, 'notes.md')).read()
        m = re.search(r'\**(?:Needed to manifest|Needs)\**:?\**:?\s*(.*?)(?:\n[-*]|\n\n|\n\*\*|\n(?=[A-Z(]))', notes, re.S)
        needs = ' '.join(m.group(1).split()) if m else ''
        needs = needs.lstrip('*: ').strip()
        assert needs, key
        assert 'rc=0 demo with change:    rc=1 294 passed, 2 skipped, 1 warning, 10 errors' in suite[key], key
        rc, kind = final[key]
        assert rc == '1', key
        if key in EXT:
            ran = 'tools/seedcheck.sh quick: first run MISSED; after adding %s: %s rc=1 %s' % (EXT[key], p, kind)

        else:
            ran = 'tools/seedcheck.sh quick: %s rc=1 %s (first run)' % (p, kind)
        meta = {'id': sid, 'breaks_property': p, 'needs_to_manifest': needs[:600],
                'confirmed': 'applied in a scratch worktree of /repo: baseline suite 294 passed / 10 collection errors (unchanged), '
                             'demo.py exits 0 without the change and non-zero with it',
                'checks_run': ran,
                'origin': 'fifth wave: written by an independent sub-agent that saw only the property text, a scratch worktree, a short description of the eight '
                          'earlier changes for this property (to avoid repeats) and the known deviations of the unchanged tree'}
        json.dump(meta, open(os.path.join(dst, 'meta.json'), 'w'), indent=1)
        n+=1
print(n)
