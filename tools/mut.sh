#!/bin/bash
# usage: tools/mut.sh <patch.diff | -R:<commit>> <tier> <PROP> [<PROP>...]
# Applies a change to a scratch worktree of /repo (outside /repo and /verif), runs the named checks against
# it (VF_REPO), prints each verdict, removes the worktree.  Evidence/out files written meanwhile are restored.
set -u
patch="$1"; tier="$2"; shift 2
wt=$(mktemp -d /tmp/vfmut.XXXXXX)
rmdir "$wt"
git -C /repo worktree add -q --detach "$wt" HEAD || exit 3
cleanup() { git -C /repo worktree remove --force "$wt" 2>/dev/null; rm -rf "$wt"; }
trap cleanup EXIT
if [[ "$patch" == sed:* ]]; then
  # sed:<file relative to repo>:<sed expression>
  rest="${patch#sed:}"; file="${rest%%:*}"; expr="${rest#*:}"
  sed -i "$expr" "$wt/$file"; git -C "$wt" diff --stat | tail -1
  [ -z "$(git -C "$wt" diff)" ] && { echo "sed changed nothing"; exit 3; }
elif [[ "$patch" == -R:* ]]; then
  git -C "$wt" show "${patch#-R:}" | git -C "$wt" apply -R || { echo "cannot reverse ${patch#-R:}"; exit 3; }
else
  git -C "$wt" apply "$patch" || { echo "patch does not apply"; exit 3; }
fi
cd /verif
for p in "$@"; do
  out=$(VF_REPO="$wt" VF_OUT="$wt/.vfout" ./vcheck "$p" --tier "$tier" 2>&1); rc=$?
  echo "== $p rc=$rc $(echo "$out" | grep -c '^VIOLATION') violation line(s)"
  echo "$out" | grep -E '^(VIOLATION|  kind|KNOWN|HARNESS)' | head -${MUT_LINES:-4}
done
