import json, os, re, shutil
OUT='/tmp/seed3/out'
EXT = {
 'C05/m1': "a two-call context inside a nested function with the narrower call written inside another call's arguments (nested_ifelse_arg)",
 'C05/m2': "slice S4: callee given only as the default of a keyword-only parameter of a bound method, calls replacing it executed",
 'C06/m1': "a decoy context with three nested scopes (helper locals named like the stars, rebound through nonlocal from a second-level helper)",
 'C07/m1': "the same sourced forwarders under every shape of module globals (__builtins__ dict / module / absent)",
 'C07/m2': "comparing the Sphinx hook's return annotation with inspect.signature(obj, eval_str=True) for plain defs",
 'C08/m1': "the depth rule on flat n-ary embed / merge calls",
 'C09/m2': "widening the pair / triple domain to position-consistent inputs (positional-only against positional-or-keyword at the same index)",
 'C10/m2': "partials with bound keywords over sourced functions whose signature comes from discovered forwarding, through sigtools.signature",
 'C11/m1': "a string-literal annotation pattern (x: 'T', annotate(x='T')) and the evaluated() = source_value() clause",
 'C11/m2': "checking on merge results that an unannotated parameter denotes nothing and evaluated() agrees with source_value()",
 'C12/m1': "annotate applied on top of the translator, then signature and every call compared again",
 'C13/m2': "stacks in which the same wrapping function occurs several times",
 'C15/m1': "a slice with every parameter of both operands annotated (agreeing / disagreeing), plain vs upgraded inputs",
 'C15/m2': "embed of three signatures with every use_* combination in the quick tier",
 'C16/m2': "a scenario with a modifier over an annotated function without retrievable source",
 'C17/m1': "the cachefill scenario (one thread re-asks, the other retrieves 130 fresh functions) and resetting sigtools' module-level state before every execution",
 'C17/m2': "the deepchain scenario (20 forwarding links followed by both threads)",
 'C18/m2': "falsy instances that an operation fills, forwarding bodies hidden from discovery",
 'C19/m1': "binding star names next to **kwargs in the quick tier",
 'C20/m1': "executing the annotated modifier spellings of f() on every call",
}
final = {}
for ln in open('/tmp/wave3_final.txt'):
    m = re.match(r'(C\d\d/m\d) demo=\S+ check_rc=(\d) ?(\S*)', ln)
    if m: final[m.group(1)] = (m.group(2), m.group(3))
final['C17/m1'] = ('1', 'thread-result-differs-from-sequential')
final['C17/m2'] = ('1', 'thread-result-differs-from-sequential')
suite = {}
for ln in open('/tmp/wave3_suite.txt'):
    k = ln.split()[0]
    suite[k] = ln
n=0
for p in sorted(os.listdir(OUT)):
    for k in (1, 2):
        key = '%s/m%d' % (p, k)
        src = os.path.join(OUT, p, 'm%d' % k)
        sid = '%s-m%d' % (p, k + 4)
        dst = os.path.join('/verif/seeded', sid)
        os.makedirs(dst, exist_ok=True)
        for fn in ('patch.diff', 'demo.py', 'notes.md'):
            shutil.copy(os.path.join(src, fn), os.path.join(dst, fn))
        notes = open(os.path.join(src, 'notes.md')).read()
        m = re.search(r'\**(?:Needed to manifest|Needs)\**:?\**:?\s*(.*?)(?:\n[-*]|\n\n|\n\*\*)', notes, re.S)
        needs = ' '.join(m.group(1).split()) if m else ''
        needs = needs.lstrip('*: ').strip()
        assert needs, key
        assert 'rc=0 demo with change:    rc=1 294 passed, 2 skipped, 1 warning, 10 errors' in suite[key], key
        rc, kind = final[key]
        assert rc == '1', key
        if key in EXT:
            ran = 'tools/seedcheck.sh quick: first run MISSED; after adding %s: %s rc=1 %s' % (EXT[key], p, kind)
        elif key == 'C16/m1':
            ran = ('tools/seedcheck.sh quick: first run ended in a harness error (the change makes every violating shard collect tens of thousands of '
                   'violations; workers ran out of memory and the pool hung); after making the runner stop a shard at 3000 violations, '
                   'limit worker memory and treat a dead worker as a harness error: C16 rc=1 %s' % kind)
        else:
            ran = 'tools/seedcheck.sh quick: %s rc=1 %s (first run)' % (p, kind)
        meta = {'id': sid, 'breaks_property': p, 'needs_to_manifest': needs[:600],
                'confirmed': 'applied in a scratch worktree of /repo: baseline suite 294 passed / 10 collection errors (unchanged), '
                             'demo.py exits 0 without the change and non-zero with it',
                'checks_run': ran,
                'origin': 'third wave: written by an independent sub-agent that saw only the property text, a scratch worktree and a '
                          'short description of the four earlier changes for this property (to avoid repeats)'}
        json.dump(meta, open(os.path.join(dst, 'meta.json'), 'w'), indent=1)
        n+=1
print(n)
