#!/usr/bin/env python3
"""usage: tools/mkwave.py <root, e.g. /tmp/seed4>
Prepares one wave of independent property-breaking changes: per property a detached scratch worktree of /repo at
<root>/Cxx and <root>/out/Cxx/{property.json, PROMPT.txt}.  The prompt contains the property text, the task, and a few
lines on the earlier changes archived for that property (so that the new ones differ) and on the known deviations of
the unchanged tree -- nothing else from /verif.  Each prompt is then handed to a fresh sub-agent."""
import glob, json, os, subprocess, sys
HERE = os.path.dirname(os.path.dirname(os.path.abspath(__file__)))
root = sys.argv[1]
props = [json.loads(l) for l in open(os.path.join(HERE, 'properties.jsonl'))]
known = json.load(open(os.path.join(HERE, 'known_findings.json')))['findings']
TEMPLATE = open(os.path.join(HERE, 'tools', 'wave_prompt.txt')).read()
for pr in props:
    pid = pr['id']
    wt = os.path.join(root, pid)
    out = os.path.join(root, 'out', pid)
    os.makedirs(out, exist_ok=True)
    if not os.path.exists(wt):
        subprocess.check_call(['git', '-C', '/repo', 'worktree', 'add', '-q', '--detach', wt, 'HEAD'])
    json.dump(pr, open(os.path.join(out, 'property.json'), 'w'), indent=1)
    earlier = []
    for d in sorted(glob.glob(os.path.join(HERE, 'seeded', pid + '-m*'))):
        notes = open(os.path.join(d, 'notes.md')).read().strip().split('\n')
        head = ' '.join(x.strip() for x in notes[:3])[:330]
        earlier.append('  * ' + head)
    dev = [e['what'][:300] for e in known if e.get('property') == pid and e.get('status') != 'fixed']
    txt = TEMPLATE.replace('@WT@', wt).replace('@OUT@', out).replace('@ROOT@', root)
    txt = txt.replace('@N_EARLIER@', str(len(earlier))).replace('@EARLIER@', '\n'.join(earlier) or '  (none)')
    txt = txt.replace('@KNOWN@', '\n'.join('  * ' + d for d in dev) or '  none recorded for this property.')
    open(os.path.join(out, 'PROMPT.txt'), 'w').write(txt)
print('prepared', len(props), 'properties under', root)
