import json, os, re, shutil
OUT='/tmp/seed4/out'
EXT = {
 'C05/m1': "a two-branch context in which both calls go to the very same callee object with different written arguments (ifelse_same)",
 'C05/m2': "a route whose wrapper is made with functools.wraps over a function carrying an explicit __signature__ with star parameters (wrapssig)",
 'C06/m1': "a route through a generic helper shared by every program of a module, each wrapper handing it another callee (helper)",
 'C07/m1': "sourced functions with postponed annotations that raise TypeError / ZeroDivisionError / ValueError when evaluated, passed through the Sphinx hook",
 'C07/m2': "forwarders whose star parameters (and two callees' same-named parameters) carry non-type annotations (tuples, lists, sets)",
 'C08/m1': "two and three modifiers stacked on one function in the wrapper-swap check",
 'C10/m1': "the relative-order rule (positional names keep the order they have in every input) on every merge / embed / forwards result",
 'C10/m2': "a default value that is equal but not identical on the two sides (2.5 compiled twice)",
 'C11/m1': "an annotate value equal to, but not the same object as, one given to an earlier annotate that is still alive (True after 1)",
 'C11/m2': "unannotated wrappers that advertise another function's signature through a plain __signature__ or a hand-set __wrapped__",
 'C12/m1': "equal-comparing instances (value __eq__ / __hash__) for the bound-method part, self checked by identity",
 'C12/m2': "applying every decorator object to a second function after a first one of the same shape",
 'C16/m1': "the content of the provenance maps of reachable signature objects in the before/after comparison, and partial objects over modifiers-wrapped / annotated functions",
 'C17/m2': "an all-points, one-pre-emption run on the modifiers scenario (the walk over a shared parsed source is not in the shared point set)",
 'C18/m1': "a translator whose function forwards discoverably, retrieved before and after annotate is applied on top",
 'C18/m2': "wrappers above a classmethod retrieved and called through the class, a subclass and instances of both, against the undecorated classmethod",
 'C19/m1': "sibling partial objects over one forwarder (same bound positionals, one more bound keyword)",
 'C19/m2': "nested partial objects that functools does not flatten, rebinding a keyword at the outer level",
}
final = {}
for ln in open('/tmp/wave4_final.txt'):
    m = re.match(r'(C\d\d/m\d) demo=\S+ check_rc=(\d) ?(\S*)', ln)
    if m: final[m.group(1)] = (m.group(2), m.group(3))
for k_ in ('C17/m1', 'C17/m2', 'C11/m1', 'C11/m2'):
    if k_ in final and not final[k_][1]:
        final[k_] = (final[k_][0], {'C17/m1': 'state-changed-at-quiescence', 'C17/m2': 'thread-result-differs-from-sequential'}.get(k_, 'annotation-resolves-outside-its-defining-context'))
suite = {}
for ln in open('/tmp/wave4_suite.txt'):
    k = ln.split()[0]
    suite[k] = ln
n=0
for p in sorted(os.listdir(OUT)):
    for k in (1, 2):
        key = '%s/m%d' % (p, k)
        src = os.path.join(OUT, p, 'm%d' % k)
        sid = '%s-m%d' % (p, k + 6)
        dst = os.path.join('/verif/seeded', sid)
        os.makedirs(dst, exist_ok=True)
        for fn in ('patch.diff', 'demo.py', 'notes.md'):
            shutil.copy(os.path.join(src, fn), os.path.join(dst, fn))
        if os.path.exists(os.path.join(src, 'patch_original.diff')):
            shutil.copy(os.path.join(src, 'patch_original.diff'), os.path.join(dst, 'patch_original.diff'))
        notes = open(os.path.join(src, 'notes.md')).read()
        m = re.search(r'\**(?:Needed to manifest|Needs)\**:?\**:?\s*(.*?)(?:\n[-*]|\n\n|\n\*\*|\n(?=[A-Z(]))', notes, re.S)
        needs = ' '.join(m.group(1).split()) if m else ''
        needs = needs.lstrip('*: ').strip()
        assert needs, key
        assert 'rc=0 demo with change:    rc=1 294 passed, 2 skipped, 1 warning, 10 errors' in suite[key], key
        rc, kind = final[key]
        assert rc == '1', key
        if key in EXT:
            ran = 'tools/seedcheck.sh quick: first run MISSED; after adding %s: %s rc=1 %s' % (EXT[key], p, kind)
        elif key == 'C17/m1':
            ran = ('tools/seedcheck.sh quick: first run ended in a harness error (the change keeps its bookkeeping in a dictionary on a class; what one '
                   'execution left there made the replay of the next schedule diverge); after extending the per-execution world reset to containers '
                   'kept on the classes sigtools defines: C17 rc=1 %s' % kind)
        else:
            ran = 'tools/seedcheck.sh quick: %s rc=1 %s (first run)' % (p, kind)
        meta = {'id': sid, 'breaks_property': p, 'needs_to_manifest': needs[:600],
                'confirmed': 'applied in a scratch worktree of /repo: baseline suite 294 passed / 10 collection errors (unchanged), '
                             'demo.py exits 0 without the change and non-zero with it',
                'checks_run': ran,
                'origin': 'fourth wave: written by an independent sub-agent that saw only the property text, a scratch worktree, a short description of the six '
                          'earlier changes for this property (to avoid repeats) and the known deviations of the unchanged tree'}
        json.dump(meta, open(os.path.join(dst, 'meta.json'), 'w'), indent=1)
        n+=1
print(n)
