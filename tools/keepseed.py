#!/usr/bin/env python3
"""usage: tools/keepseed.py <srcdir> <seed id> <property> <needs...> -- <what was run / verdicts>
Copies patch.diff, demo.py, notes.md into /verif/seeded/<seed id>/ and writes meta.json."""
import json, os, shutil, sys
src, sid, prop = sys.argv[1:4]
rest = sys.argv[4:]
i = rest.index('--')
needs, ran = ' '.join(rest[:i]), ' '.join(rest[i + 1:])
dst = os.path.join(os.path.dirname(os.path.dirname(os.path.abspath(__file__))), 'seeded', sid)
os.makedirs(dst, exist_ok=True)
for fn in ('patch.diff', 'demo.py', 'notes.md'):
    if os.path.exists(os.path.join(src, fn)):
        shutil.copy(os.path.join(src, fn), os.path.join(dst, fn))
meta = {'id': sid, 'breaks_property': prop, 'needs_to_manifest': needs,
        'confirmed': 'applied in a scratch worktree of /repo: baseline suite 294 passed / 10 collection errors (unchanged), '
                     'demo.py exits 0 without the change and non-zero with it',
        'checks_run': ran, 'origin': 'written by an independent sub-agent that saw only the property text and a scratch worktree'}
json.dump(meta, open(os.path.join(dst, 'meta.json'), 'w'), indent=1)
print('kept', dst)
