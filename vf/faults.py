"""Engine E4 -- crash-point enumeration.

One run of an operation is recorded under ``sys.setprofile``: every *crossing*
(a Python-level call whose callee lives outside /repo/sigtools while its caller
lives inside, or a builtin getattr/hasattr/compile called from inside) gets an
index.  ``run_with_fault(k, exc)`` re-runs the operation on fresh objects with a
hook that raises ``exc`` at exactly the k-th crossing (raising from a profile
function raises in the traced frame and disarms the hook).  The k-th crossing
of a replay must be the callee recorded at k, otherwise the replay diverged
(harness error)."""
import os
import sys

from vf import runner

SIGTOOLS_DIR = os.path.join(os.path.realpath(runner.REPO), 'sigtools') + os.sep
ENV_BUILTINS = (getattr, hasattr, compile)
EXC_MENU = (RuntimeError, AttributeError, TypeError, ValueError, KeyError, OSError, RecursionError)


def _inside(code):
    fn = code.co_filename
    return fn.startswith(SIGTOOLS_DIR) and os.sep + 'tests' + os.sep not in fn


class Injected(BaseException):
    pass


class Recorder(object):
    def __init__(self, fault_at=None, exc_type=None, expect=None):
        self.points = []
        self.fault_at = fault_at
        self.exc_type = exc_type
        self.expect = expect
        self.diverged = None
        self.fired = False

    def __call__(self, frame, event, arg):
        if event == 'call':
            back = frame.f_back
            if back is None or _inside(frame.f_code) or not _inside(back.f_code):
                return
            label = 'call:%s:%s' % (os.path.basename(frame.f_code.co_filename), frame.f_code.co_name)
        elif event == 'c_call':
            if not _inside(frame.f_code):
                return
            if not any(arg is b for b in ENV_BUILTINS):
                return
            label = 'c_call:%s' % arg.__name__
        else:
            return
        k = len(self.points)
        self.points.append(label)
        if self.fault_at is not None and k == self.fault_at:
            if self.expect is not None and self.expect != label:
                self.diverged = (k, self.expect, label)
                return
            self.fired = True
            raise self.exc_type('injected at crossing %d (%s)' % (k, label))


def record(op):
    """Run op() once under the recorder; returns (points, outcome)."""
    rec = Recorder()
    old = sys.getprofile()
    sys.setprofile(rec)
    try:
        try:
            res = ('ok', op())
        except Exception as e:  # noqa
            res = ('raise', type(e).__name__, str(e)[:200])
    finally:
        sys.setprofile(old)
    return rec.points, res


def run_with_fault(op, k, exc_type, expect):
    rec = Recorder(k, exc_type, expect)
    old = sys.getprofile()
    sys.setprofile(rec)
    try:
        try:
            res = ('ok', op())
        except Exception as e:  # noqa
            res = ('raise', type(e).__name__, str(e)[:200])
    finally:
        sys.setprofile(old)
    if rec.diverged:
        raise runner.HarnessError('replay diverged at crossing %d: recorded %s, now %s' % rec.diverged)
    return rec.fired, res
