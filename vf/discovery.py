"""Shared evaluation of forwarding programs (engine E3) for C05 / C06 / C08 /
C15 / C19: materialise a list of grammar records, retrieve, execute, and
compute the explicit-declaration expectation through the public algebra."""
import functools
import itertools

import sigtools
from sigtools import signatures as S

from vf import space, alg, runner, progs, grammar
from vf.binder import Alphabet
from vf.space import PO, POK, VA, KWO, VK

NAMES = ('a', 'b', 'x', 'y', 'args', 'kwargs', 'p', 'k', 'zz')
NMAX = 6
_ALPHA = []


def alphabet():
    if not _ALPHA:
        _ALPHA.append(Alphabet(NAMES, NMAX))
    return _ALPHA[0]


class Loaded(object):
    """One materialised program."""
    __slots__ = ('prog', 'uid', 'w', 'callees', 'holder', 'module', 'batch')


def load(progs_list, uid_base=0):
    """Materialise programs; returns (batch, [Loaded])."""
    batch = progs.Batch()
    for i, pr in enumerate(progs_list):
        batch.add(grammar.render(pr, str(uid_base + i)), weight=1 + len(pr.calls))
    batch.load()
    out = []
    for i, pr in enumerate(progs_list):
        ld = Loaded()
        ld.prog = pr
        ld.uid = str(uid_base + i)
        ld.w, ld.callees, ld.holder = grammar.target(batch, pr, ld.uid)
        name = ('K%s' if pr.route in ('method', 'method_default') else 'W%s') % ld.uid
        ld.module = batch.module_of(name)
        ld.batch = batch
        out.append(ld)
    return batch, out


def retrieve(ld):
    """('ok', sig) | ('raise', exc)"""
    try:
        return 'ok', sigtools.signature(ld.w)
    except Exception as e:  # noqa: classified by the caller
        return 'raise', e


def own_func(ld):
    pr = ld.prog
    if pr.route in ('method', 'method_default'):
        return ld.w.__func__
    if pr.route == 'param':
        return ld.w.func
    if pr.route == 'wrapsdeco':
        return ld.w.__wrapped__
    return ld.w


def plain(ld):
    return S.signature(ld.w)


# ---------------------------------------------------------------------------
# expectation: the equivalent explicit declaration

def call_flags(pr, j):
    cs = pr.calls[j]

    def one(use, which):
        tainted = grammar.non_pristine(pr, which)
        if use == 'none' or pr.context in grammar.SHADOW_CONTEXTS:
            return False, False
        if use == 'own' and not tainted:
            return True, False
        return False, True          # foreign, combined, or tainted star: hidden arguments
    uva, hva = one(cs.va, 'va')
    uvk, hvk = one(cs.vk, 'vk')
    return uva, uvk, hva, hvk


def expected(ld):
    """List of acceptable expected signatures (one per order of the forwarding calls); the plain signature when
    nothing usable remains or the declaration cannot be honoured."""
    pr = ld.prog
    f = own_func(ld)
    own = S.signature(f)
    if pr.route == 'wrapssig':
        # the def's own parameter list, read from a bare copy of the function (no __wrapped__, no copied __signature__)
        import types
        bare = types.FunctionType(f.__code__, f.__globals__, f.__name__, f.__defaults__, f.__closure__)
        bare.__kwdefaults__ = f.__kwdefaults__
        own = S.signature(bare)
    pl = plain(ld)
    decls = []
    for j, cs in enumerate(pr.calls):
        uva, uvk, hva, hvk = call_flags(pr, j)
        if not (uva or uvk):
            continue
        decls.append((j, cs, uva, uvk, hva, hvk))
    if pr.context == 'ifelse_unres' or pr.route == 'method_default':
        return [pl], 'unresolvable-callee'
    if not decls:
        return [pl], 'nothing-forwarded'
    outs = []
    for order in itertools.permutations(decls):
        try:
            sigs = []
            for j, cs, uva, uvk, hva, hvk in order:
                csig = sigtools.signature(ld.callees[j])
                if pr.route == 'kpartial':
                    csig = S.mask(S.forwards(S.signature(ld.module.KAPPLY), csig), 1)
                if pr.route in ('helper', 'partial_helper'):
                    # what the shared helper forwards to once it has been handed this callee
                    csig = S.mask(S.forwards(S.signature(ld.module.APPLY), csig), 1)
                sigs.append(S.forwards(own, csig, cs.npos, *cs.names, use_varargs=uva, use_varkwargs=uvk,
                                       hide_args=hva, hide_kwargs=hvk, partial=pr.route in ('partial', 'partial_helper')))
            res = S.merge(*sigs)
        except ValueError:
            return [pl], 'declaration-impossible'
        except Exception as e:  # noqa: the algebra may only fail with ValueError (C15); reported by the caller
            return [pl], 'algebra-raises-%s' % type(e).__name__
        if pr.route == 'method':
            try:
                res = S.mask(res, 1)
            except ValueError:
                return [pl], 'declaration-impossible'
        outs.append(res)
    return outs, 'declared'


def fid(f):
    """Identity of a source callable; bound methods are re-created on every attribute access."""
    import types
    if isinstance(f, types.MethodType):
        return ('m', id(f.__func__), id(f.__self__))
    return ('o', id(f))


def src_multiset(sig):
    src = sig.sources
    out = {}
    for k, v in src.items():
        if k == '+depths':
            out[k] = tuple(sorted((fid(f), d) for f, d in v.items()))
        else:
            out[k] = tuple(sorted(fid(f) for f in v))
    return out


# ---------------------------------------------------------------------------
# execution

def exec_call(ld, n, K):
    """Really call the wrapper; True = no TypeError.  Anything but TypeError is a harness error."""
    a = (0,) * n
    k = dict((nm, 0) for nm in K)
    try:
        r = ld.w(*a, **k)
    except TypeError:
        return False
    except Exception as e:  # noqa
        raise runner.HarnessError('generated program raised %s: %s\n%s' % (type(e).__name__, e, grammar.render(ld.prog, ld.uid)))
    if ld.prog.route in ('partial', 'partial_helper') and isinstance(r, functools.partial):
        # the wrapper returned functools.partial(callee, ...): surplus arguments must bind partially
        import inspect
        try:
            inspect.signature(r.func).bind_partial(*r.args, **r.keywords)
        except TypeError:
            return False
    return True


def hidden_choices(ld):
    """Values for the foreign stars *OTHER_A / **OTHER_K (the 'hidden arguments'): every length 0..P+1 and every
    subset of the callees' keyword-passable names -- only as far as the program uses a foreign star."""
    pr = ld.prog
    use_a = any(cs.va in ('other', 'both') for cs in pr.calls)
    use_k = any(cs.vk in ('other', 'both') for cs in pr.calls)
    if not (use_a or use_k):
        return [((), {})]
    maxp = max(len(space.positionals(cs.callee)) for cs in pr.calls) + 1
    kws = sorted(set(nm for cs in pr.calls for nm in space.kwpass(cs.callee)))
    a_opts = [(0,) * i for i in range(maxp + 1)] if use_a else [()]
    k_opts = [dict((nm, 0) for nm in c) for r in range(len(kws) + 1) for c in itertools.combinations(kws, r)] if use_k else [{}]
    return [(a, k) for a in a_opts for k in k_opts]


def runs_somehow(ld, n, K):
    """Does the call succeed for some branch-independent choice of the hidden arguments?  For two-branch programs
    both branches must succeed (FLAG True and False)."""
    flags = (True, False) if ld.prog.context in grammar.TWO_BRANCH_CONTEXTS else (True,)
    mod = ld.module
    try:
        for fl in flags:
            mod.FLAG = fl
            ok = False
            for a, k in hidden_choices(ld):
                mod.OTHER_A, mod.OTHER_K = a, k
                if exec_call(ld, n, K):
                    ok = True
                    break
            if not ok:
                return False
        return True
    finally:
        mod.FLAG = True
        mod.OTHER_A, mod.OTHER_K = (), {}


def input_shapes(ld):
    pr = ld.prog
    return [pr.outer] + [cs.callee for cs in pr.calls]


def show_prog(ld):
    return grammar.render(ld.prog, ld.uid)
