"""Helpers shared by the algebra checks (engine E1/E2): building real
signatures from shapes, running an operation, abstracting the outcome."""
import inspect
import warnings

from sigtools import signatures as S
from sigtools import _signatures as _S

from vf import space
from vf.space import PO, POK, VA, KWO, VK

IncompatibleSignatures = S.IncompatibleSignatures
UpgradedSignature = _S.UpgradedSignature
UpgradedParameter = _S.UpgradedParameter

_SIG_CACHE = {}


def func_of(shape):
    return space.make_func(shape)


def sig_of(shape):
    """UpgradedSignature of a real function with this shape, sources = that
    function (cached per process: one function object per shape)."""
    try:
        return _SIG_CACHE[shape]
    except KeyError:
        sig = S.signature(space.make_func(shape))
        _SIG_CACHE[shape] = sig
        return sig


def fresh_sig(shape):
    """Same, but a new function and a new signature object every time."""
    return S.signature(space.make_func(shape, cache=False))


def outcome(fn, *args, **kwargs):
    """('ok', sig) | ('incompat', exc) | ('valueerror', exc) | ('other', exc)"""
    try:
        return 'ok', fn(*args, **kwargs)
    except IncompatibleSignatures as e:
        return 'incompat', e
    except ValueError as e:
        return 'valueerror', e
    except Exception as e:      # noqa -- classified, never swallowed
        return 'other', e


def sig_str(sig):
    try:
        return str(sig)
    except Exception as e:  # malformed signature
        return '<unprintable %s: %s>' % (type(e).__name__, e)


def params_key(sig):
    """Parameter list with all metadata the algebra reads, hashable."""
    return tuple((p.name, int(p.kind), _val_key(p.default), _val_key(p.annotation))
                 for p in sig.parameters.values())


def _val_key(v):
    if v is inspect.Parameter.empty:
        return ('empty',)
    try:
        hash(v)
        return ('v', type(v).__name__, v)
    except TypeError:
        return ('id', id(v))


def src_key(sig):
    """Provenance map as comparable plain data: name -> tuple of callable ids,
    '+depths' -> sorted (id, depth)."""
    src = getattr(sig, 'sources', None)
    if src is None:
        return None
    out = {}
    for k, v in src.items():
        if k == '+depths':
            out[k] = tuple(sorted((id(f), d) for f, d in v.items()))
        else:
            out[k] = tuple(id(f) for f in v)
    return out


def label(f):
    """Readable label of a source callable."""
    try:
        import inspect as _i
        return '%s%s' % (getattr(f, '__name__', type(f).__name__), _i.signature(f, follow_wrapped=False))
    except Exception:
        return repr(f)


def src_show(sig):
    src = getattr(sig, 'sources', None)
    if src is None:
        return None
    out = {}
    for k, v in src.items():
        if k == '+depths':
            out[k] = sorted((label(f), d) for f, d in v.items())
        else:
            out[k] = [label(f) for f in v]
    return out


def downgrade(sig):
    """Plain inspect.Signature carrying the same data."""
    return inspect.Signature(
        [inspect.Parameter(p.name, p.kind, default=p.default, annotation=p.annotation)
         for p in sig.parameters.values()],
        return_annotation=sig.return_annotation)


def well_formed(res):
    """None if ``res`` is a well-formed UpgradedSignature, else a reason."""
    if not isinstance(res, UpgradedSignature):
        return 'result is %s, not UpgradedSignature' % type(res).__name__
    params = list(res.parameters.values())
    for p in params:
        if not isinstance(p, UpgradedParameter):
            return 'parameter %r is %s, not UpgradedParameter' % (p.name, type(p).__name__)
    try:
        inspect.Signature([inspect.Parameter(p.name, p.kind, default=p.default, annotation=p.annotation)
                           for p in params])
    except (ValueError, TypeError) as e:
        return 'parameter list does not re-validate: %s' % e
    if not space.valid_shape(space.shape_of(res)):
        return 'invalid parameter order / duplicate names'
    src = getattr(res, 'sources', None)
    if not isinstance(src, dict) or '+depths' not in src:
        return "no '+depths' map in sources"
    return None
