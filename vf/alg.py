"""Helpers shared by the algebra checks (engine E1/E2): building real
signatures from shapes, running an operation, abstracting the outcome."""
import inspect
import warnings

from sigtools import signatures as S
from sigtools import _signatures as _S

from vf import space
from vf.space import PO, POK, VA, KWO, VK

IncompatibleSignatures = S.IncompatibleSignatures
UpgradedSignature = _S.UpgradedSignature
UpgradedParameter = _S.UpgradedParameter

_SIG_CACHE = {}


def func_of(shape):
    return space.make_func(shape)


def sig_of(shape):
    """UpgradedSignature of a real function with this shape, sources = that
    function (cached per process: one function object per shape)."""
    try:
        return _SIG_CACHE[shape]
    except KeyError:
        sig = S.signature(space.make_func(shape))
        _SIG_CACHE[shape] = sig
        return sig


def fresh_sig(shape):
    """Same, but a new function and a new signature object every time."""
    return S.signature(space.make_func(shape, cache=False))


def outcome(fn, *args, **kwargs):
    """('ok', sig) | ('incompat', exc) | ('valueerror', exc) | ('other', exc)"""
    try:
        return 'ok', fn(*args, **kwargs)
    except IncompatibleSignatures as e:
        return 'incompat', e
    except ValueError as e:
        return 'valueerror', e
    except Exception as e:      # noqa -- classified, never swallowed
        return 'other', e


def sig_str(sig):
    try:
        return str(sig)
    except Exception as e:  # malformed signature
        return '<unprintable %s: %s>' % (type(e).__name__, e)


def params_key(sig):
    """Parameter list with all metadata the algebra reads, hashable."""
    return tuple((p.name, int(p.kind), _val_key(p.default), _val_key(p.annotation))
                 for p in sig.parameters.values())


def _val_key(v):
    if v is inspect.Parameter.empty:
        return ('empty',)
    try:
        hash(v)
        return ('v', type(v).__name__, v)
    except TypeError:
        return ('id', id(v))
