"""Sharded exhaustive runs, result merging, evidence, replay artefacts, known
findings (DESIGN.md section 6)."""
import importlib
import json
import multiprocessing
import os
import sys
import time
import traceback

VERIF = os.path.dirname(os.path.dirname(os.path.abspath(__file__)))
REPO = os.environ.get('VF_REPO', '/repo')
# where evidence/ and out/ are written: /verif itself, or a scratch directory for runs against a changed tree (tools/)
OUTROOT = os.environ.get('VF_OUT') or VERIF
MAX_VIOL_PER_SHARD = 25
MAX_ARTEFACTS = 12


class HarnessError(Exception):
    """Something is wrong with the machinery (exit 2) -- not a verdict."""


class Saturated(Exception):
    """A shard has recorded so many violations that going on is pointless (and, on a badly broken tree, dangerous:
    corrupted shared objects can grow without bound).  The shard's statistics so far are the shard's result."""

    def __init__(self, stats):
        Exception.__init__(self, 'shard saturated with violations')
        self.stats = stats


SATURATION = 3000
WORKER_MEMORY = 6 << 30


class Stats(object):
    """What one shard (or the whole run) covered."""

    def __init__(self):
        self.c = {}            # counters
        self.viol = []         # violation dicts, simplest first
        self.nviol = 0
        self.samples = []
        self.distinct = {}     # label -> set of small hashables
        self.notes = []
        self._vkeys = set()

    def inc(self, key, n=1):
        self.c[key] = self.c.get(key, 0) + n

    def seen(self, label, key):
        self.distinct.setdefault(label, set()).add(key)

    def violation(self, kind, case, detail, features=None):
        self.nviol += 1
        if self.nviol == SATURATION:
            self.inc('shards_cut_short_after_%d_violations' % SATURATION)
            self._saturated = True
        self.inc('violations:' + kind)
        vkey = (kind, json.dumps(features or {}, sort_keys=True, default=repr))
        if len(self.viol) < MAX_VIOL_PER_SHARD or vkey not in self._vkeys:
            self._vkeys.add(vkey)
            self.viol.append({'kind': kind, 'case': case, 'detail': detail,
                              'features': features or {}})
        if getattr(self, '_saturated', False):
            self._saturated = False
            raise Saturated(self)

    def sample(self, obj, cap=4):
        if len(self.samples) < cap:
            self.samples.append(obj)

    def merge(self, other):
        for k, v in other.c.items():
            self.c[k] = self.c.get(k, 0) + v
        self.viol.extend(other.viol)
        self.nviol += other.nviol
        for s in other.samples:
            if len(self.samples) < 8:
                self.samples.append(s)
        for k, v in other.distinct.items():
            self.distinct.setdefault(k, set()).update(v)
        self.notes.extend(other.notes)


def _limit_memory():
    try:
        import resource
        soft, hard = resource.getrlimit(resource.RLIMIT_AS)
        resource.setrlimit(resource.RLIMIT_AS, (WORKER_MEMORY, hard))
    except Exception:  # noqa: best effort
        pass


def _run_shard(task):
    modname, fname, tier, shard = task
    try:
        mod = importlib.import_module(modname)
        st = getattr(mod, fname)(tier, shard)
        return ('ok', shard, st)
    except Saturated as e:
        return ('ok', shard, e.stats)
    except BaseException:
        return ('err', shard, traceback.format_exc())


def workers():
    try:
        return max(1, int(os.environ.get('VF_WORKERS', '') or (os.cpu_count() or 1)))
    except ValueError:
        return os.cpu_count() or 1


def run_shards(modname, fname, tier, shards, seed=0):
    """Run ``module.fname(tier, shard)`` for every shard on a fork pool; merge
    in shard order (so the outcome does not depend on scheduling or seed;
    the seed only rotates the order in which shards are handed out)."""
    shards = list(shards)
    order = list(range(len(shards)))
    if order:
        r = seed % len(order)
        order = order[r:] + order[:r]
    tasks = [(modname, fname, tier, shards[i]) for i in order]
    nw = min(workers(), max(1, len(tasks)))
    results = {}
    if nw == 1:
        for t in tasks:
            results[repr(t[3])] = _run_shard(t)
    else:
        import concurrent.futures as cf
        ctx = multiprocessing.get_context('fork')
        try:
            with cf.ProcessPoolExecutor(nw, mp_context=ctx, initializer=_limit_memory) as pool:
                futs = [pool.submit(_run_shard, t) for t in tasks]
                for fu in cf.as_completed(futs):
                    res = fu.result()
                    results[repr(res[1])] = res
        except cf.process.BrokenProcessPool:
            raise HarnessError('a worker process of %s.%s died (killed, e.g. out of memory)' % (modname, fname))
    total = Stats()
    for sh in shards:
        status, _, payload = results[repr(sh)]
        if status != 'ok':
            raise HarnessError('shard %r of %s.%s failed:\n%s' % (sh, modname, fname, payload))
        total.merge(payload)
    return total


# ---------------------------------------------------------------------------
# known findings

def load_findings():
    path = os.path.join(VERIF, 'known_findings.json')
    if not os.path.exists(path):
        return []
    with open(path) as f:
        return json.load(f)['findings']


def match_finding(prop, v, findings):
    """An *open* entry matches when the property, the violation kind and every
    feature named in the entry's ``match`` agree.  ``fixed`` entries match
    nothing."""
    for ent in findings:
        if ent.get('status') != 'open' or ent.get('property') != prop:
            continue
        if ent.get('kind') != v['kind']:
            continue
        feats = v.get('features') or {}
        if all(feats.get(k) == val for k, val in ent.get('match', {}).items()):
            return ent
    return None


def fresh_details(prop, st):
    """Details of the violations in ``st`` that no open known finding covers (used by replays)."""
    findings = load_findings()
    return [v['detail'] for v in st.viol if match_finding(prop, v, findings) is None]


# ---------------------------------------------------------------------------
# finishing a run

def finish(prop, tier, seed, t0, stats, coverage, assumptions, quiet=False):
    """Classify violations, write artefacts + evidence, print verdict lines.
    Returns the process exit code."""
    findings = load_findings()
    outdir = os.path.join(OUTROOT, 'out', prop)
    os.makedirs(outdir, exist_ok=True)
    for fn in os.listdir(outdir):
        if fn.endswith('.json'):
            os.unlink(os.path.join(outdir, fn))
    known = {}
    fresh = []
    for v in stats.viol:
        ent = match_finding(prop, v, findings)
        if ent is not None:
            known.setdefault(ent['id'], [ent, 0, v])
            known[ent['id']][1] += 1
        else:
            fresh.append(v)
    # one representative of every (kind, features) class first, so that no class is hidden by the artefact cap
    firsts, rest, seen_cls = [], [], set()
    for v in fresh:
        cls = (v['kind'], json.dumps(v.get('features') or {}, sort_keys=True, default=repr))
        if cls in seen_cls:
            rest.append(v)
        else:
            seen_cls.add(cls)
            firsts.append(v)
    fresh = firsts + rest
    # violations beyond the per-shard cap are only counted; they can only be
    # declared known if every *kind* counter is covered by a known entry
    kinds_fresh = set(v['kind'] for v in fresh)
    counted = dict((k[len('violations:'):], n) for k, n in stats.c.items() if k.startswith('violations:'))
    recorded = {}
    for v in stats.viol:
        recorded[v['kind']] = recorded.get(v['kind'], 0) + 1
    lines = []
    for fid, (ent, n, v) in sorted(known.items()):
        lines.append('KNOWN-FINDING: property=%s %s [%s; %d recorded case(s), e.g. %s]' % (
            prop, ent['what'], fid, n, json.dumps(v['detail'])[:300]))
    artefacts = []
    for i, v in enumerate(fresh[:MAX_ARTEFACTS]):
        path = os.path.join(outdir, '%d.json' % i)
        with open(path, 'w') as f:
            json.dump({'property': prop, 'kind': v['kind'], 'case': v['case'],
                       'detail': v['detail'], 'features': v.get('features', {})},
                      f, indent=1, sort_keys=True, default=repr)
        artefacts.append(path)
        lines.append('VIOLATION property=%s replay=%s' % (prop, path))
        lines.append('  kind=%s %s' % (v['kind'], json.dumps(v['detail'], default=repr)[:600]))
    if len(fresh) > MAX_ARTEFACTS:
        lines.append('  ... %d more unlisted violations recorded (%s)' % (
            len(fresh) - MAX_ARTEFACTS, ', '.join(sorted(kinds_fresh))))
    wall = time.time() - t0
    cov = dict(coverage)
    cov.setdefault('counters', dict(sorted(stats.c.items())))
    cov.setdefault('samples', stats.samples[:6] or [{'note': 'no sample recorded'}])
    for k, s in stats.distinct.items():
        cov.setdefault('distinct_' + k, len(s))
    cov['violations_total_counted'] = stats.nviol
    cov['violations_by_kind'] = counted
    cov['known_findings_matched'] = sorted(known)
    ev = {
        'property_id': prop, 'tier': tier, 'seed': seed, 'level': 'model_checking',
        'coverage': cov, 'assumptions': assumptions, 'wall_s': round(wall, 2),
        'violations': len(fresh),
    }
    os.makedirs(os.path.join(OUTROOT, 'evidence'), exist_ok=True)
    with open(os.path.join(OUTROOT, 'evidence', prop + '.json'), 'w') as f:
        json.dump(ev, f, indent=1, sort_keys=True, default=repr)
        f.write('\n')
    for ln in lines:
        print(ln)
    if not quiet:
        print('%s %s: states=%s transitions=%s validated=%s violations=%d known=%d wall=%.1fs' % (
            prop, tier, cov.get('states'), cov.get('transitions'),
            cov.get('traces_validated_against_impl'), len(fresh), len(known), wall))
    sys.stdout.flush()
    return 1 if fresh else 0
