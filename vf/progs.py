"""Engine E3 -- programs as real files.

Discovery needs ``inspect.getsource``; generated programs are therefore
written as real modules (<= FUNCS_PER_MODULE definitions each) into a scratch
directory created with ``tempfile.mkdtemp`` outside /repo and /verif, imported,
used, and removed (also on failure).  A *Batch* collects source snippets,
materialises them and hands back the namespace."""
import atexit
import importlib.util
import linecache
import os
import shutil
import sys
import tempfile

FUNCS_PER_MODULE = 200

PRELUDE = '''\
import functools
import inspect
import types
import contextlib
from sigtools import modifiers

FLAG = True
OTHER_A = ()
OTHER_K = {}
NULLCM = contextlib.nullcontext({})
NULLCMT = contextlib.nullcontext(())


def DECOY(*args, **kwargs):
    return None


def SINK(*args, **kwargs):
    return None


def IDENT(value):
    return value


@modifiers.kwoargs('opt_')
def KAPPLY(fn, opt_=None, *args, **kwargs):
    """A shared forwarding helper whose signature is rewritten by a modifier."""
    return fn(*args, **kwargs)


class PARTIAL_SUBCLASS(functools.partial):
    """A partial object of a subclass of functools.partial."""


def APPLY(fn, *args, **kwargs):
    """A helper shared by every program of the module: it forwards to whatever it is handed."""
    return fn(*args, **kwargs)


def ONLYWRAP(func):
    """A decorator that only wraps."""
    @functools.wraps(func)
    def only_wrapper(*args, **kwargs):
        return func(*args, **kwargs)
    return only_wrapper


NS = types.SimpleNamespace(sub=types.SimpleNamespace())


# module globals named like the closure variables / parameters through which some routes reach the callee:
# resolution must prefer the closure cell / the bound argument
def cal0(decoy_cal0):
    return None


def cal1(decoy_cal1):
    return None


def fn0(decoy_fn0):
    return None


def fn1(decoy_fn1):
    return None


'''

_DIRS = []
_COUNTER = [0]


def _cleanup():
    for d in _DIRS:
        shutil.rmtree(d, ignore_errors=True)
    del _DIRS[:]


atexit.register(_cleanup)


class Batch(object):
    """Collect snippets (each one or more top-level statements), then
    ``load()`` -> list of module namespaces; ``get(name)`` finds a top-level
    object.  ``close()`` removes the files."""

    def __init__(self, future=False, prelude=PRELUDE):
        self.snippets = []
        self.future = future
        self.prelude = prelude
        self.dir = None
        self.modules = []
        self.index = {}

    def add(self, source, weight=1):
        self.snippets.append((source, weight))

    def load(self):
        self.dir = tempfile.mkdtemp(prefix='vfprog.%d.' % os.getpid())
        _DIRS.append(self.dir)
        chunk, w, chunks = [], 0, []
        for src, weight in self.snippets:
            if w + weight > FUNCS_PER_MODULE and chunk:
                chunks.append(chunk)
                chunk, w = [], 0
            chunk.append(src)
            w += weight
        if chunk:
            chunks.append(chunk)
        for ch in chunks:
            _COUNTER[0] += 1
            name = 'vfp_%d_%d' % (os.getpid(), _COUNTER[0])
            path = os.path.join(self.dir, name + '.py')
            text = ('from __future__ import annotations\n' if self.future else '') + self.prelude + '\n\n'.join(ch) + '\n'
            with open(path, 'w') as f:
                f.write(text)
            spec = importlib.util.spec_from_file_location(name, path)
            mod = importlib.util.module_from_spec(spec)
            sys.modules[name] = mod
            spec.loader.exec_module(mod)
            self.modules.append(mod)
            for k, v in vars(mod).items():
                if not k.startswith('__'):
                    self.index.setdefault(k, v)
        return self

    def get(self, name):
        return self.index[name]

    def module_of(self, name):
        for m in self.modules:
            if name in vars(m):
                return m
        raise KeyError(name)

    def close(self):
        for m in self.modules:
            sys.modules.pop(m.__name__, None)
            linecache.cache.pop(getattr(m, '__file__', None), None)
        self.modules = []
        self.index = {}
        if self.dir:
            shutil.rmtree(self.dir, ignore_errors=True)
            if self.dir in _DIRS:
                _DIRS.remove(self.dir)
            self.dir = None

    def __enter__(self):
        return self

    def __exit__(self, *exc):
        self.close()
