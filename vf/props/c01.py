"""C01 -- merge soundness (engine E1: exhaustive product of signature tuples x
call shapes; oracle = binder model B validated against CPython)."""
import itertools

from sigtools import signatures as S

from vf import space, alg, runner
from vf.binder import Alphabet
from vf.space import show, shape_of, valid_shape, role_consistent, VA, VK

PROP = 'C01'
NAMES8 = ('a', 'b', 'c', 'args', 'kwargs', 'p', 'k', 'zz')
NAMES6 = ('a', 'b', 'c', 'args', 'kwargs', 'zz')
NAMES7 = ('a', 'b', 'args', 'kwargs', 'p', 'k', 'zz')
NAMES5 = ('a', 'b', 'args', 'kwargs', 'zz')

_SLICES = {}


def slices(tier):
    """name -> (alphabet names, nmax, arity, first-operand list, other-operand list, forms)"""
    if tier in _SLICES:
        return _SLICES[tier]
    both_va, both_vk = ('args', 'p'), ('kwargs', 'k')
    u2 = space.universe(2, 'abc', both_va, both_vk)
    u1 = space.universe(1, 'abc', both_va, both_vk)
    first = lambda u: [s for s in u if space.name_sorted(s) and space.std_stars(s)]
    u1_first = [s for s in u1 if space.std_stars(s) and all(p[0] in ('a', 'args', 'kwargs') for p in s)]
    out = {
        'pairs-S2': (NAMES8, 5, 2, first(u2), u2, ('flat',)),
        'triples-S1': (NAMES8, 4, 3, u1_first, u1, ('flat', 'nested')),
    }
    if tier == 'thorough':
        u3 = space.universe(3, 'abc')
        out['pairs-S3'] = (NAMES6, 7, 2, first(u3), u3, ('flat',))
        u2ab = space.universe(2, 'ab', both_va, both_vk)
        out['triples-S2ab'] = (NAMES7, 7, 3, first(u2ab), u2ab, ('flat', 'nested'))
        u1ab = space.universe(1, 'ab')
        u1ab_first = [s for s in u1ab if all(p[0] in ('a', 'args', 'kwargs') for p in s)]
        out['quads-S1ab'] = (NAMES5, 5, 4, u1ab_first, u1ab, ('flat', 'nested'))
    _SLICES[tier] = out
    return out


def shards(tier):
    out = [('derived', 0, 0)]
    for name, (_, _, arity, first, other, _) in slices(tier).items():
        n = len(first)
        # one shard per first operand for big slices, chunks for small ones
        per = max(1, n // 64)
        for i in range(0, n, per):
            out.append((name, i, min(n, i + per)))
    return out


_ALPHA = {}


def alphabet(names, nmax):
    key = (names, nmax)
    if key not in _ALPHA:
        _ALPHA[key] = Alphabet(names, nmax)
    return _ALPHA[key]


def do_merge(sigs, form):
    if form == 'flat':
        return alg.outcome(S.merge, *sigs)

    def nested():
        acc = sigs[0]
        for s in sigs[1:]:
            acc = S.merge(acc, s)
        return acc
    return alg.outcome(nested)


def eval_case(alpha, shapes, form, st):
    """Evaluate the C01 predicate for one tuple of input shapes."""
    sigs = [alg.sig_of(s) for s in shapes]
    status, res = do_merge(sigs, form)
    st.inc('transitions')
    if status != 'ok':
        st.inc('raised:' + status)
        if status != 'incompat':
            st.seen('outcome', ('raise', status))
        return None
    r = shape_of(res)
    if not valid_shape(r):
        st.inc('malformed-result(C15)')
        return None
    st.seen('result', r)
    if r not in shapes:
        st.inc('nontrivial')
    accr = alpha.acc(r)
    excl = alpha.excluded(r)
    for s in shapes:
        excl |= alpha.excluded(s)
    rc = role_consistent(shapes)
    nonc = alpha.noncolliding(r, shapes) if rc else 0
    st.inc('evaluations', alpha.size)
    for i, s in enumerate(shapes):
        bad = accr & ~alpha.acc(s) & ~excl
        if not bad:
            continue
        hit = bad & alpha.pure
        clause = 'pure call (all positional or all keyword)'
        if not hit and rc:
            hit = bad & nonc
            clause = 'non-colliding call on role-consistent inputs'
        if hit:
            n, K = alpha.first(hit)
            case = {'op': 'merge', 'form': form, 'inputs': [space.to_json(x) for x in shapes],
                    'alphabet': [list(alpha.names), alpha.nmax]}
            detail = {'inputs': [show(x) for x in shapes], 'form': form, 'result': alg.sig_str(res),
                      'call': {'positionals': n, 'keywords': K}, 'rejected_by_input': i,
                      'clause': clause, 'role_consistent': rc}
            st.violation('merge-unsound', case, detail,
                         {'arity': len(shapes), 'form': form})
            return detail
    return None


def derived_shard(st):
    """Inputs that share their provenance: the signature of a function next to signatures derived from the same function
    (a partial object binding one parameter by keyword, a copy with a default added through replace())."""
    import functools
    import inspect
    alpha = alphabet(NAMES6, 5)
    for shape in [x for x in space.universe(2, 'abc') if space.name_sorted(x)]:
        for nm, kind, opt in shape:
            if opt or kind in (VA, VK, space.PO):
                continue
            f = space.make_func(shape, cache=False)
            base = S.signature(f)
            derived = []
            for label, make in (('partial(f, %s=0)' % nm, lambda: S.signature(functools.partial(f, **{nm: 0}))),
                                ('replace(default of %s)' % nm, lambda: base.replace(parameters=[
                                    p.replace(default=0) if p.name == nm else p for p in base.parameters.values()]))):
                try:
                    derived.append((label, make()))
                except ValueError:
                    pass        # a default in front of a required positional parameter: no such signature
            for label, d in derived:
                if not valid_shape(shape_of(d)):
                    continue
                for sigs, order in (((d, base), 'derived first'), ((base, d), 'derived second')):
                    st.inc('states')
                    status, res = alg.outcome(S.merge, *sigs)
                    st.inc('transitions')
                    if status != 'ok' or not valid_shape(shape_of(res)):
                        continue
                    accr = alpha.acc(shape_of(res))
                    st.inc('evaluations', alpha.size)
                    for i, x in enumerate(sigs):
                        xs = shape_of(x)
                        bad = accr & ~alpha.acc(xs) & ~alpha.excluded(xs) & ~alpha.excluded(shape_of(res)) & alpha.pure
                        if bad:
                            n, K = alpha.first(bad)
                            st.violation('merge-unsound', {'op': 'merge-derived', 'shape': space.to_json(shape), 'name': nm},
                                         {'inputs': [str(y) for y in sigs], 'derivation': label, 'order': order, 'result': alg.sig_str(res),
                                          'call': {'positionals': n, 'keywords': K}, 'rejected_by_input': i,
                                          'clause': 'pure call (all positional or all keyword)'}, {'arity': 2, 'form': 'derived'})
                            break
                    st.seen('result', ('derived', shape, nm, label, order, shape_of(res)))
    st.inc('validated', alpha.validated)
    alpha.validated = 0


def shard(tier, sh):
    name, i0, i1 = sh
    if name == 'derived':
        st = runner.Stats()
        derived_shard(st)
        return st
    names, nmax, arity, first, other, forms = slices(tier)[name]
    alpha = alphabet(names, nmax)
    st = runner.Stats()
    for a in first[i0:i1]:
        for rest in itertools.product(other, repeat=arity - 1):
            shapes = (a,) + rest
            st.inc('states')
            for form in forms:
                eval_case(alpha, shapes, form, st)
            if len(st.samples) < 2 and len(rest[-1]) > 1:
                st.sample({'slice': name, 'inputs': [show(x) for x in shapes]})
    st.inc('validated', alpha.validated)
    st.inc('validated_shapes', alpha.validated_shapes)
    alpha.validated = alpha.validated_shapes = 0
    return st


def run(tier, seed):
    sl = slices(tier)
    st = runner.run_shards(__name__, 'shard', tier, shards(tier), seed)
    coverage = {
        'exhaustive': True,
        'states': st.c.get('states', 0),
        'transitions': st.c.get('transitions', 0),
        'traces_validated_against_impl': st.c.get('validated', 0),
        'evaluations': st.c.get('evaluations', 0),
        'distinct_nontrivial': len(st.distinct.get('result', ())),
        'rule': 'every tuple of the slice universes (first operand restricted to name-sorted shapes with standard star '
                'names: operations are equivariant under renaming) x merge flat/nested x the whole call alphabet; '
                'distinct_nontrivial = distinct result shapes; "nontrivial" counter = results differing from every input',
        'slices': dict((k, {'first_operands': len(v[3]), 'other_operands': len(v[4]), 'arity': v[2],
                            'tuples': len(v[3]) * len(v[4]) ** (v[2] - 1), 'forms': list(v[5]),
                            'call_alphabet': {'names': list(v[0]), 'max_positionals': v[1],
                                              'size': (v[1] + 1) * 2 ** len(v[0])}})
                       for k, v in sl.items()),
        'bound': 'k<=2 named params per operand for pairs, k<=1 for triples (quick); k<=3 pairs, k<=2 triples over '
                 '{a,b}, 4-tuples k<=1 (thorough)',
    }
    assumptions = [
        'acceptance is decided on call shapes (n positionals, keyword-name set) by binder model B; every acceptance '
        'set used was replayed against a really-called compiled function in this run (traces_validated_against_impl)',
        'calls naming a positional-only parameter by keyword next to **kwargs are excluded (version dependent)',
        'bounds as listed under coverage.slices; nothing is claimed above them',
    ]
    return st, coverage, assumptions


def replay(art):
    case = art['case']
    if case.get('op') == 'merge-derived':
        st = runner.Stats()
        derived_shard(st)
        return [v['detail'] for v in st.viol if v['case'] == case] or None
    names, nmax = case['alphabet']
    alpha = Alphabet(tuple(names), nmax)
    shapes = tuple(space.from_json(x) for x in case['inputs'])
    st = runner.Stats()
    return eval_case(alpha, shapes, case['form'], st)
