"""C07 -- retrieval is total and only ever narrows the callable's own signature.

Engine E3: (i) every callable of a fixed on-disk corpus (standard library +
installed packages + sigtools itself) x three retrieval modes compared with
inspect.signature; (ii) a grammar of adversarial sources: one forwarding
wrapper per (construct, position); (iii) a menagerie of odd callables;
(iv) the Sphinx hook on every corpus object with a dotted name."""
import functools
import importlib
import inspect
import itertools
import sys
import types
import warnings

import sigtools
from sigtools import signatures as S, _signatures as _S

from vf import space, alg, runner, progs

PROP = 'C07'

SKIP_MODULES = {
    'antigravity', 'this', 'idlelib', 'turtledemo', 'turtle', 'tkinter', 'lib2to3', 'test', 'pydoc_data', 'ensurepip',
    'venv', 'distutils', 'msilib', 'winreg', 'winsound', 'msvcrt', 'nt', '_winapi', 'nturl2path', 'encodings',
    'curses', 'readline', 'rlcompleter', 'sitecustomize', 'usercustomize', 'pty', 'tty', 'crypt', 'nis', 'ossaudiodev',
    'spwd', 'audioop', 'cgi', 'cgitb', 'chunk', 'imghdr', 'mailcap', 'nntplib', 'pipes', 'sndhdr', 'sunau', 'telnetlib',
    'uu', 'xdrlib', 'aifc', 'asynchat', 'asyncore', 'smtpd', 'imp',
}
EXTRA_PACKAGES = ('attr', 'sigtools', 'sigtools.signatures', 'sigtools.specifiers', 'sigtools.modifiers',
                  'sigtools.wrappers', 'sigtools.support', 'sigtools._autoforwards', 'sigtools._util',
                  'sphinx.util.inspect', 'sphinx.ext.autodoc', 'docutils.nodes', 'jinja2', 'pygments.lexer',
                  'pytest', '_pytest.fixtures', '_pytest.python', 'pluggy', 'packaging.version')

MODES = (
    ('sigtools.signature', lambda o: sigtools.signature(o)),
    ('sigtools.signature(auto=False)', lambda o: sigtools.signature(o, auto=False)),
    ('signatures.signature', lambda o: S.signature(o)),
)


def module_names():
    names = sorted(n for n in sys.stdlib_module_names if not n.startswith('__') and n not in SKIP_MODULES)
    return names + list(EXTRA_PACKAGES)


def import_quiet(name):
    try:
        with warnings.catch_warnings():
            warnings.simplefilter('ignore')
            return importlib.import_module(name)
    except BaseException:
        return None


def members(modname):
    """(dotted name, object) for functions, classes, methods one level down, partials, callable instances
    defined in (or exported by) the module; deterministic order."""
    mod = import_quiet(modname)
    if mod is None:
        return
    try:
        items = sorted(vars(mod).items())
    except Exception:
        return
    for name, obj in items:
        if name.startswith('__'):
            continue
        if isinstance(obj, types.ModuleType):
            continue
        try:
            if not callable(obj):
                continue
        except Exception:
            continue
        yield '%s.%s' % (modname, name), obj
        if isinstance(obj, type) and getattr(obj, '__module__', None) == modname:
            try:
                sub = sorted(vars(obj).items())
            except Exception:
                continue
            for mname, _ in sub:
                if mname.startswith('__') and mname not in ('__init__', '__call__', '__new__'):
                    continue
                try:
                    m = getattr(obj, mname)
                except Exception:
                    continue
                try:
                    if callable(m):
                        yield '%s.%s.%s' % (modname, name, mname), m
                except Exception:
                    continue


def outcome(fn, obj):
    try:
        with warnings.catch_warnings():
            warnings.simplefilter('ignore')
            return ('ok', fn(obj))
    except RecursionError as e:
        return ('raise', RecursionError, e)
    except Exception as e:  # noqa: compared by type
        return ('raise', type(e), e)


def is_plain(obj):
    """Plain function or method: no forger, __signature__ or __wrapped__ anywhere on the chain."""
    f = obj
    if isinstance(f, types.MethodType):
        f = f.__func__
    if not isinstance(f, types.FunctionType):
        return False
    d = getattr(f, '__dict__', {})
    return not any(k in d for k in ('__signature__', '__wrapped__', '_sigtools__forger', '_sigtools__autoforwards_hint'))


def call_family(own, res):
    """n <= P+1, K = R u S with R in {none, required keywords} and |S| <= 2."""
    names = [p.name for p in own.parameters.values()] + [p.name for p in res.parameters.values() if p.name not in own.parameters]
    names = names[:12] + ['zz_']
    npos = sum(1 for p in res.parameters.values() if p.kind in (p.POSITIONAL_ONLY, p.POSITIONAL_OR_KEYWORD))
    req = [p.name for p in res.parameters.values() if p.kind == p.KEYWORD_ONLY and p.default is p.empty]
    for n in range(min(npos, 8) + 2):
        for R in ((), tuple(req)):
            for r in (0, 1, 2):
                for Sx in itertools.combinations(names, r):
                    yield n, tuple(dict.fromkeys(R + Sx))


def accepts(sig, n, K):
    try:
        sig.bind(*((0,) * n), **dict((k, 0) for k in K))
        return True
    except TypeError:
        return False


def declared_forger(obj):
    for o in (obj, getattr(obj, '__func__', None)):
        if o is None:
            continue
        try:
            if inspect.getattr_static(o, '_sigtools__forger', None) is not None:
                return True
        except Exception:  # noqa
            pass
    return False


def unhashable(obj):
    try:
        hash(obj)
    except TypeError:
        return True
    except Exception:  # noqa: a __hash__ that raises something else is not this case
        return False
    return False


def check_object(name, obj, st, origin):
    case = {'origin': origin, 'name': name}
    st.inc('states')
    ref = outcome(lambda o: inspect.signature(o), obj)
    for mode, fn in MODES:
        got = outcome(fn, obj)
        st.inc('transitions')
        if ref[0] == 'ok':
            if got[0] != 'ok':
                if got[1] is ValueError and declared_forger(obj):
                    # the one exception the property names: an explicit forwards_to_* declaration that cannot be honoured
                    st.inc('declared-forwarding-cannot-be-honoured')
                    continue
                feat = {'mode': mode, 'exception': got[1].__name__, 'origin': origin}
                if got[1] is TypeError and unhashable(obj) and str(got[2]).startswith('unhashable type'):
                    feat = {'cause': 'unhashable-callable'}
                st.violation('retrieval-raises-where-inspect-succeeds', dict(case, mode=mode),
                             {'object': name, 'mode': mode, 'error': '%s: %s' % (got[1].__name__, str(got[2])[:300]),
                              'inspect': str(ref[1])}, feat)
                continue
            if not isinstance(got[1], _S.UpgradedSignature):
                st.violation('retrieval-returns-non-upgraded', dict(case, mode=mode),
                             {'object': name, 'mode': mode, 'type': type(got[1]).__name__}, {'mode': mode})
                continue
        else:
            if got[0] == 'ok':
                st.inc('sigtools-succeeds-where-inspect-raises')
                continue
            if got[1] is not ref[1]:
                st.violation('different-exception-type-than-inspect', dict(case, mode=mode),
                             {'object': name, 'mode': mode, 'sigtools': '%s: %s' % (got[1].__name__, str(got[2])[:200]),
                              'inspect': '%s: %s' % (ref[1].__name__, str(ref[2])[:200])},
                             {'mode': mode, 'origin': origin})
            continue
        if mode != 'sigtools.signature' or not is_plain(obj):
            continue
        try:
            own = inspect.signature(obj, follow_wrapped=False)
        except Exception:
            continue
        res = got[1]
        if [(p.name, p.kind, p.default is p.empty) for p in res.parameters.values()] == \
                [(p.name, p.kind, p.default is p.empty) for p in own.parameters.values()]:
            continue
        st.inc('narrowed')
        st.seen('narrowed', name)
        kwp = set(p.name for p in res.parameters.values() if p.kind in (p.POSITIONAL_OR_KEYWORD, p.KEYWORD_ONLY))
        own_names = set(own.parameters)
        po_vk = any(p.kind == p.VAR_KEYWORD for p in own.parameters.values()) and \
            set(p.name for p in own.parameters.values() if p.kind == p.POSITIONAL_ONLY)
        n_ev = 0
        for n, K in call_family(own, res):
            if any(k not in kwp and k in own_names for k in K):
                continue
            if po_vk and any(k in po_vk for k in K):
                continue
            n_ev += 1
            if accepts(res, n, K) and not accepts(own, n, K):
                st.violation('result-accepts-call-the-def-rejects', case,
                             {'object': name, 'reported': str(res), 'own': str(own), 'call': {'positionals': n, 'keywords': list(K)}},
                             {'origin': origin})
                break
        st.inc('evaluations', n_ev)


# ---------------------------------------------------------------------------
# sphinx hook

def check_sphinx(name, obj, st):
    from sigtools import sphinxext
    st.inc('sphinx_objects')
    try:
        with warnings.catch_warnings():
            warnings.simplefilter('ignore')
            out = sphinxext.process_signature(None, 'function', name, obj, None, 'SIG', 'RET')
    except RecursionError:
        return
    except Exception as e:  # noqa
        st.violation('sphinx-hook-raises', {'origin': 'sphinx', 'name': name},
                     {'object': name, 'error': '%s: %s' % (type(e).__name__, str(e)[:300])},
                     {'exception': type(e).__name__})
        return
    st.inc('transitions')
    if out == ('SIG', 'RET'):
        st.inc('sphinx_passthrough')
        return
    if not (isinstance(out, tuple) and len(out) == 2 and isinstance(out[0], str) and isinstance(out[1], str)):
        st.violation('sphinx-hook-result-malformed', {'origin': 'sphinx', 'name': name}, {'object': name, 'result': repr(out)[:300]}, {})
        return
    # consistency with the evaluated signature of the object the hook documents
    try:
        parent, target = sphinxext.fetch_dotted_name(name)
        if isinstance(target, types.MethodType):
            target = target.__func__         # the hook documents the function behind a method object
        if isinstance(parent, type) and callable(target):
            from sigtools import _util
            target = _util.safe_get(target, object(), type(parent))
        with warnings.catch_warnings():
            warnings.simplefilter('ignore')
            sig = sigtools.signature(target)
            try:
                sig = sig.evaluated()
            except Exception:
                pass
        ret = sig.return_annotation
        want = (str(sig.replace(return_annotation=sig.empty)), '' if ret is sig.empty else repr(ret))
    except Exception:
        return
    if out != want and 'at 0x' not in want[0] + want[1]:
        st.violation('sphinx-hook-inconsistent', {'origin': 'sphinx', 'name': name},
                     {'object': name, 'hook': list(out), 'expected': list(want)}, {})
        return
    # independent of sigtools: the return annotation of a plain def, evaluated by inspect itself
    if is_plain(target):
        try:
            own_ret = inspect.signature(target, eval_str=True).return_annotation
        except Exception:  # noqa: not evaluable here, nothing to compare with
            return
        want_ret = '' if own_ret is inspect.Signature.empty else repr(own_ret)
        st.inc('sphinx_return_annotations_compared')
        if out[1] != want_ret and 'at 0x' not in want_ret:
            st.violation('sphinx-hook-inconsistent', {'origin': 'sphinx', 'name': name},
                         {'object': name, 'hook': list(out), 'return_annotation_of_the_def': want_ret}, {'part': 'return'})


# ---------------------------------------------------------------------------
# adversarial sources

CONSTRUCTS = [
    # name, lines before the call, wrapper of the call statement, lines after, def-prefix, needs
    ('walrus', ['(w_ := 1)'], None, ['(w2_ := 2)']),
    ('listcomp', ['lc_ = [i_ for i_ in range(2)]'], 'r = [CALL for i_ in (0,)][0]', ['lc2_ = [j_ * 2 for j_ in range(2) if j_]']),
    ('setcomp', ['sc_ = {i_ for i_ in range(2)}'], 'r = list({CALL for i_ in (0,)})[0]', ['sc2_ = {i_ for i_ in ()}']),
    ('dictcomp', ['dc_ = {i_: i_ for i_ in range(2)}'], 'r = {0: CALL for i_ in (0,)}[0]', ['dc2_ = {}']),
    ('genexp', ['ge_ = list(i_ for i_ in range(2))'], 'r = next(CALL for i_ in (0,))', ['ge2_ = sum(i_ for i_ in ())']),
    ('starred_call', ['DECOY(*[1, 2], **{"q": 1})'], 'r = IDENT(*[CALL])', ['DECOY(*(), **{})']),
    ('global_stmt', ['global G_ADV', 'G_ADV = 1'], None, ['G_ADV = 2']),
    ('nested_def_kwonly', ['def h_(p_, *, flag_):', '    return p_'], 'def h3_(*, flag_, other_=1):\n    return CALL\nr = h3_(flag_=1)',
     ['def h2_(p_=1, *q_, r_=2, **s_):', '    return p_']),
    ('nested_nonlocal', ['cnt_ = 0', 'def inc_():', '    nonlocal cnt_', '    cnt_ += 1', 'inc_()'], None, ['inc_()']),
    ('lambda_defaults', ['lam_ = lambda p_=1, *q_, r_=2, **s_: p_'], 'r = (lambda *, k_=3: CALL)()', ['lam2_ = lambda *, k_: k_']),
    ('class_body', ['class L_(object):', '    x_ = 1', '    def m_(self, *a_, **k_):', '        return a_', '    @staticmethod', '    def s_(q_, *, r_):', '        return q_'],
     'class L2_(object):\n    v_ = CALL\nr = L2_.v_', ['class L3_(L_):', '    pass']),
    ('decorated_inner', ['@functools.lru_cache(None)', '@functools.wraps(DECOY)', 'def deco_(*a_, **k_):', '    return 1'], None, ['deco_()']),
    ('try_star', ['try:', '    pass', 'except* ValueError:', '    pass'], 'try:\n    r = CALL\nexcept* KeyError:\n    raise', ['try:', '    pass', 'except* (TypeError, OSError) as eg_:', '    pass']),
    ('with_multiple', ['with NULLCM as c1_, NULLCM as c2_:', '    pass'], 'with NULLCM, NULLCM as c3_:\n    r = CALL', ['with (NULLCM as c4_, NULLCM):', '    pass']),
    ('fstring', ['fs_ = f"{a!r:>{10}} {1 + 1}"'], 'r = [CALL, f"{a}"][0]', ['fs2_ = f"{fs_}{{}}"']),
    ('type_hints', ['th_: "int" = 1', 'th2_: list[int]'], 'r: "object" = CALL', ['th3_: dict[str, int] = {}']),
    ('match', ['match a:', '    case {"k": v_}:', '        pass', '    case [x_, *rest_]:', '        pass', '    case _:', '        pass'],
     'match 1:\n    case 1:\n        r = CALL\n    case _:\n        r = None', ['match a:', '    case str() | int():', '        pass', '    case _:', '        pass']),
    ('conditional_expr', ['ce_ = 1 if a else 2'], 'r = CALL if FLAG else None', ['ce2_ = a or 1']),
    ('assert_del', ['tmp_ = 1', 'assert tmp_', 'del tmp_'], None, ['tmp2_ = 0', 'del tmp2_']),
    ('while_for_else', ['for i_ in ():', '    pass', 'else:', '    i_ = 0', 'while False:', '    break'], 'for i_ in (0,):\n    r = CALL', ['while False:', '    continue']),
    ('slices_subscripts', ['sl_ = [1, 2, 3][::-1][0:1]'], 'r = [CALL][0:1][0]', ['sl2_ = (1, 2)[-1]']),
    ('import_inside', ['import os.path as osp_', 'from os import path as p_'], None, ['import sys as sys_']),
    ('yield_gen_inner', ['def g_():', '    yield 1', '    yield from ()'], None, ['gl_ = list(g_())']),
    ('async_inner', ['async def co_(p_, *, q_=1):', '    await co2_()', '    async with NULLCM:', '        pass', '    async for z_ in ():', '        pass', 'async def co2_():', '    return [x_ async for x_ in agen_()]', 'async def agen_():', '    yield 1'], None, []),
    ('posonly_inner', ['def po_(p_, /, q_, *, r_):', '    return p_'], 'def po2_(p_=1, /):\n    return CALL\nr = po2_()', ['po_(1, 2, r_=3)']),
    ('chained_compare_bool', ['cb_ = 1 < 2 < 3 and not a'], None, ['cb2_ = a is not None']),
    ('dict_set_literals', ['dl_ = {**{}, "k": 1}', 'sl__ = {*(), 1}'], 'r = {"k": CALL}["k"]', ['tl_ = (*(), 1)']),
    ('return_in_try_finally', ['try:', '    pass', 'finally:', '    pass'], 'try:\n    r = CALL\nfinally:\n    pass', []),
    ('raise_from', ['try:', '    raise KeyError() from None', 'except KeyError:', '    pass'], None, []),
    ('type_alias_and_generics', ['type Alias_ = int', 'def gen_[T](x_: T) -> T:', '    return x_'], None, ['class Box_[T]:', '    pass']),
]
POSITIONS = ('before', 'around', 'after')


def adv_source(i, name, before, around, after, pos, flavour):
    """One forwarding wrapper with a construct at a position.  flavour: plain | async | generator"""
    L = []
    callee = 'ADV_CALLEE'
    call = '%s(*args, **kwargs)' % callee
    head = {'plain': 'def', 'async': 'async def', 'generator': 'def'}[flavour]
    L.append('%s ADV_%d(a, *args, **kwargs):' % (head, i))
    body = []
    if pos == 'before':
        body += before
    if pos == 'around' and around:
        body += around.replace('CALL', call).split('\n')
    else:
        body.append('r = ' + call)
    if pos == 'after':
        body += after
    if flavour == 'generator':
        body.append('yield r')
    else:
        body.append('return r')
    L += ['    ' + ln for ln in body]
    return '\n'.join(L) + '\n'


def adversarial_programs():
    out = []
    i = 0
    for name, before, around, after in CONSTRUCTS:
        for pos in POSITIONS:
            if pos == 'around' and not around:
                continue
            if pos == 'after' and not after:
                continue
            for flavour in ('plain', 'async', 'generator'):
                if flavour == 'generator' and (name in ('async_inner',) or (around and 'return CALL' in around and pos == 'around')):
                    pass
                out.append((i, name, pos, flavour, adv_source(i, name, before, around, after, pos, flavour)))
                i += 1
    return out


LAMBDA_FORMS = '''
LAM_assign = lambda a, *args, **kwargs: ADV_CALLEE(*args, **kwargs)
LAM_wraps = functools.wraps(ADV_CALLEE)(lambda *args, **kwargs: ADV_CALLEE(*args, **kwargs))
LAM_dict = {'k': lambda a, *args, **kwargs: ADV_CALLEE(*args, **kwargs)}['k']
def LAM_mk():
    return lambda a, *args, **kwargs: ADV_CALLEE(*args,
                                                   **kwargs)
LAM_returned = LAM_mk()
LAM_paren = (lambda a, *args, **kwargs:
             ADV_CALLEE(*args, **kwargs))
LAM_continuation = IDENT(
    lambda a, *args, **kwargs: ADV_CALLEE(*args, **kwargs))
LAM_two_on_a_line = [lambda *args: ADV_CALLEE(*args), lambda **kwargs: ADV_CALLEE(**kwargs)][1]
class LAM_cls(object):
    m = lambda self, *args, **kwargs: ADV_CALLEE(*args, **kwargs)
LAM_method = LAM_cls().m
LAM_unbound = LAM_cls.m
@functools.wraps(ADV_CALLEE)
def LAM_decorated_def(*args, **kwargs):
    return ADV_CALLEE(*args, **kwargs)
LAM_partial_of_lambda = functools.partial(lambda a, *args, **kwargs: ADV_CALLEE(*args, **kwargs), 1)
def LAM_oneline(a, *args, **kwargs): return ADV_CALLEE(*args, **kwargs)
if True:
    def LAM_indented(a, *args, **kwargs):
        return ADV_CALLEE(*args, **kwargs)
class MTH_cls(object):
    def target(self, x, y=2, *, z=3):
        return 0
    def m_posonly_self(self, /, a, *args, **kwargs):
        return self.target(*args, **kwargs)
    def m_posonly_two(self, a, /, b, *args, **kwargs):
        return self.target(*args, **kwargs)
    def m_plain(self, a, *args, **kwargs):
        return self.target(*args, **kwargs)
    @classmethod
    def m_cls(cls, a, *args, **kwargs):
        return ADV_CALLEE(*args, **kwargs)
    @staticmethod
    def m_static(a, *args, **kwargs):
        return ADV_CALLEE(*args, **kwargs)
    def m_kwonly(self, *args, a, **kwargs):
        return self.target(*args, **kwargs)
def PO_callee(x=1, /, *, y=2):
    return 0
def FWD_only_kwargs_to_posonly(a, **kwargs):
    return PO_callee(**kwargs)
def FWD_unused_args_to_posonly(a, *args, **kwargs):
    return PO_callee(**kwargs)
def FWD_only_args_to_kwonly(a, *args):
    return ADV_CALLEE(*args)
MTH_inst = MTH_cls()
MTH_bound_posonly_self = MTH_inst.m_posonly_self
MTH_bound_posonly_two = MTH_inst.m_posonly_two
MTH_bound_plain = MTH_inst.m_plain
MTH_bound_cls = MTH_inst.m_cls
MTH_cls_cls = MTH_cls.m_cls
MTH_static = MTH_inst.m_static
MTH_bound_kwonly = MTH_inst.m_kwonly
MTH_unbound_plain = MTH_cls.m_plain
'''
LAMBDA_NAMES = ('LAM_assign', 'LAM_wraps', 'LAM_dict', 'LAM_returned', 'LAM_paren', 'LAM_continuation', 'LAM_two_on_a_line',
                'LAM_method', 'LAM_unbound', 'LAM_decorated_def', 'LAM_partial_of_lambda', 'LAM_oneline', 'LAM_indented',
                'MTH_bound_posonly_self', 'MTH_bound_posonly_two', 'MTH_bound_plain', 'MTH_bound_cls', 'MTH_cls_cls', 'MTH_static',
                'MTH_bound_kwonly', 'MTH_unbound_plain', 'FWD_only_kwargs_to_posonly', 'FWD_unused_args_to_posonly',
                'FWD_only_args_to_kwonly')


def check_adversarial(st):
    progs_ = adversarial_programs()
    batch = progs.Batch()
    batch.add('G_ADV = 0\n\ndef ADV_CALLEE(x, y=2, *, z=3):\n    return 0\n', 2)
    batch.add(LAMBDA_FORMS, 40)
    ok = []
    for i, name, pos, flavour, src in progs_:
        try:
            compile(src, '<adv>', 'exec')
        except SyntaxError as e:
            raise runner.HarnessError('adversarial source %s/%s/%s does not compile: %s\n%s' % (name, pos, flavour, e, src))
        batch.add(src, 3)
        ok.append((i, name, pos, flavour, src))
    batch.load()
    try:
        for nm in LAMBDA_NAMES:
            check_object('adversarial:' + nm, batch.get(nm), st, 'adversarial')
        for i, name, pos, flavour, src in ok:
            f = batch.get('ADV_%d' % i)
            label = 'adversarial:%s/%s/%s' % (name, pos, flavour)
            before = st.nviol
            check_object(label, f, st, 'adversarial')
            if st.nviol != before:
                st.viol[-1]['detail']['source'] = src
                st.viol[-1]['case']['adv'] = [name, pos, flavour]
            # the construct must not stop discovery where the call is an ordinary statement of the body
            try:
                sig = sigtools.signature(f)
                st.seen('adv_result', (name, pos, flavour, str(sig)))
            except Exception:
                pass
            # exec-defined twin without source
            ns = {'ADV_CALLEE': batch.get('ADV_CALLEE'), 'functools': functools, 'NULLCM': batch.get('NULLCM'),
                  'DECOY': batch.get('DECOY'), 'IDENT': batch.get('IDENT'), 'FLAG': True, 'G_ADV': 0}
            exec(compile(src, '<nosource>', 'exec'), ns)
            check_object(label + ' [no source]', ns['ADV_%d' % i], st, 'adversarial')
    finally:
        batch.close()


GLOBALS_SRC = '''
def GK_CALLEE(x, y=2, *, z=3):
    return 0


def GK_to_global(a, *args, **kwargs):
    return GK_CALLEE(*args, **kwargs)


def GK_to_builtin(a, *args, **kwargs):
    return print(*args, **kwargs)


def GK_to_builtin_type(a, *args, **kwargs):
    return dict(*args, **kwargs)


def GK_to_missing(a, *args, **kwargs):
    return GK_NOT_DEFINED_ANYWHERE(*args, **kwargs)


def GK_to_builtin_attr(a, *args, **kwargs):
    return str.format(*args, **kwargs)


class GK_Class(object):
    def m(self, a, *args, **kwargs):
        return sorted(*args, **kwargs)
'''
GLOBALS_NAMES = ('GK_to_global', 'GK_to_builtin', 'GK_to_builtin_type', 'GK_to_missing', 'GK_to_builtin_attr')


def check_globals_kinds(st):
    """The same sourced functions under the three shapes module globals take: __builtins__ a dict (imported modules),
    the builtins module itself (__main__, python -c) and absent (exec without builtins entry removed afterwards)."""
    import builtins
    for kind in ('dict', 'module', 'absent'):
        batch = progs.Batch(prelude='')
        batch.add(GLOBALS_SRC, 10)
        batch.load()
        try:
            mod = batch.modules[0]
            if kind == 'module':
                vars(mod)['__builtins__'] = builtins
            elif kind == 'absent':
                vars(mod).pop('__builtins__', None)
            for nm in GLOBALS_NAMES:
                check_object('globals[%s]:%s' % (kind, nm), batch.get(nm), st, 'globals')
            check_object('globals[%s]:GK_Class().m' % kind, batch.get('GK_Class')().m, st, 'globals')
            st.seen('adv_result', ('globals', kind, str(sigtools.signature(batch.get('GK_to_global')))))
        finally:
            batch.close()


ODD_SRC = '''
import functools
from sigtools import specifiers


def OD_callee(x, y, *, z):
    return x


def OD_kwonly(*, z):
    return z


def OD_rec(n, *args, **kwargs):
    return OD_rec(n - 1, *args, **kwargs)


def OD_mutual_a(*args, **kwargs):
    return OD_mutual_b(*args, **kwargs)


def OD_mutual_b(*args, **kwargs):
    return OD_mutual_a(*args, **kwargs)


def OD_outer(*args, **kwargs):
    return OD_callee(*args, **kwargs)


def OD_mkpartial(*args, **kwargs):
    return functools.partial(*args, **kwargs)


def OD_starseq(seq, *args, **kwargs):
    return OD_callee(*seq, **kwargs)


def OD_starmap(mapping, *args, **kwargs):
    return OD_callee(*args, **mapping)


def OD_po_kw(a, /, **kw):
    return a, kw


def OD_one_then_kw(a, **kw):
    return OD_kwonly(**kw)


class OD_K(object):
    def noself(*args, **kwargs):
        return OD_kwonly(*args, **kwargs)

    @property
    def raising(self):
        raise RuntimeError('attribute getter raises')

    def to_raising(self, *args, **kwargs):
        return self.raising(*args, **kwargs)

    def to_missing(self, *args, **kwargs):
        return self.nowhere(*args, **kwargs)

    def starself(self, *args, **kwargs):
        return OD_callee(*self, **kwargs)

    @specifiers.forwards_to_method('nowhere')
    def declared_missing(self, *args, **kwargs):
        return None


class OD_Unhashable(object):
    __hash__ = None         # what @dataclass(eq=True) leaves behind

    def __call__(self, a, b=1):
        return a


class OD_UnhashableForwarder(object):
    __hash__ = None

    def __call__(self, a, *args, **kwargs):
        return OD_callee(*args, **kwargs)


def odd_objects():
    k = OD_K()
    return [
        ('partial binding more positionals than the function itself takes', functools.partial(OD_one_then_kw, 1, 2)),
        ('method declared to forward to an attribute that does not exist', k.declared_missing),
        ('unhashable callable instance', OD_Unhashable()),
        ('unhashable callable instance that forwards', OD_UnhashableForwarder()),
        ('bound __call__ of an unhashable instance', OD_Unhashable().__call__),
        ('self-recursive forwarder', OD_rec),
        ('mutually recursive forwarders', OD_mutual_a),
        ('partial binding a keyword the callee lacks', functools.partial(OD_outer, q=1)),
        ('partial binding more positionals than the callee takes', functools.partial(OD_outer, 1, 2, 3)),
        ('partial binding positional and keyword for one parameter', functools.partial(OD_outer, 1, x=3)),
        ('bound method without an explicit self', k.noself),
        ('forwarding into functools.partial itself', OD_mkpartial),
        ('partial of the former', functools.partial(OD_mkpartial, OD_callee)),
        ('method forwarding to a property that raises', k.to_raising),
        ('method forwarding to a missing attribute', k.to_missing),
        ('partial binding a non-iterable to a starred parameter', functools.partial(OD_starseq, 5)),
        ('partial binding a non-mapping to a double-starred parameter', functools.partial(OD_starmap, 5)),
        ('method starring self', k.starself),
        ('partial binding a keyword named like a positional-only parameter', functools.partial(OD_po_kw, 1, a=2)),
    ]
'''


def check_odd(st):
    """Sourced forwarders that are legal Python but leave discovery nothing sensible to say: recursion, partial objects
    binding what the discovered callee cannot take, attribute getters that raise, stars applied to bound values."""
    batch = progs.Batch(prelude='')
    batch.add(ODD_SRC, 30)
    batch.load()
    try:
        for name, obj in batch.get('odd_objects')():
            check_object('odd:' + name, obj, st, 'odd')
    finally:
        batch.close()


ANN_SRC = '''
def AN_callee(first, *rest: ('r', int), **options: ['c']) -> {'ret': 1}:
    return first


def AN_wrapper(a, *args: ('a', str), **kwargs: 'wrapper options') -> ('w',):
    return AN_callee(*args, **kwargs)


def AN_one(x: ('one', 1), y: [1] = None):
    return x


def AN_two(x: ('two', 2), y: {2} = None):
    return x


def AN_fan_out(*args, **kwargs):
    AN_one(*args, **kwargs)
    return AN_two(*args, **kwargs)


class AN_K(object):
    def target(self, p: ('t',), *more: ('m',)):
        return p

    def method(self, *args: ('k',), **kwargs):
        return self.target(*args, **kwargs)
'''
ANN_NAMES = ('AN_wrapper', 'AN_fan_out')

POSTPONED_SRC = '''
import types


def PP_evaluable(a: int, b: 'str' = None) -> float:
    return a


def PP_name_error(a: NotDefinedAnywhere) -> AlsoNot:
    return a


def PP_attribute_error(a: types.nope):
    return a


def PP_type_error(a: 'Decimal' | None, b: 3[int] = 0) -> None[1]:
    return a


def PP_zero_division(a: 1 / 0):
    return a


def PP_value_error(a: int('x')):
    return a


def PP_forwards_to_type_error(t, *args, **kwargs):
    return PP_type_error(*args, **kwargs)


class PP_K(object):
    def method(self, a: 'x' | None, *args: 1 / 0) -> int('y'):
        return a
'''
POSTPONED_NAMES = ('PP_evaluable', 'PP_name_error', 'PP_attribute_error', 'PP_type_error', 'PP_zero_division',
                   'PP_value_error', 'PP_forwards_to_type_error', 'PP_K.method')


def safe_evaluated(obj):
    try:
        return sigtools.signature(obj).evaluated()
    except Exception:  # noqa
        return None


def check_annotated(st):
    """Annotations are arbitrary objects (ANN_SRC) and, under PEP 563, arbitrary expressions that need not evaluate
    (POSTPONED_SRC): retrieval and the Sphinx hook have to cope with both."""
    batch = progs.Batch(prelude='')
    batch.add(ANN_SRC, 10)
    batch.load()
    try:
        for nm in ANN_NAMES:
            check_object('annotated:' + nm, batch.get(nm), st, 'annotated')
        check_object('annotated:AN_K().method', batch.get('AN_K')().method, st, 'annotated')
    finally:
        batch.close()
    # two modules re-exporting under one package name (numpy's set_module pattern): the same annotation text denotes a
    # different class in each
    twins = []
    for tag in ('client', 'server'):
        b = progs.Batch(prelude='', future=True)
        b.add('class Options(object):\n    side = %r\n\n\ndef connect(opts: Options, retries: int = 3) -> Options:\n    return opts\n' % tag, 3)
        b.load()
        twins.append(b)
    try:
        for b in twins:
            b.modules[0].connect.__module__ = 'vfc07_facade_pkg'
        for b in twins:
            mod = b.modules[0]
            before = st.nviol
            check_sphinx(mod.__name__ + '.connect', mod.connect, st)
            sig = safe_evaluated(mod.connect)
            if sig is not None and sig.parameters['opts'].annotation is not mod.Options:
                st.violation('sphinx-hook-inconsistent', {'origin': 'annotated', 'name': 'connect'},
                             {'object': 'postponed:connect re-exported as vfc07_facade_pkg.connect (%s)' % mod.Options.side,
                              'evaluated': str(sig), 'annotation_denotes': '%s.Options' % mod.__name__}, {'part': 'evaluated'})
            for v in st.viol[before:]:
                v['case'] = {'origin': 'annotated', 'name': 'connect'}
    finally:
        for b in twins:
            b.close()
    batch = progs.Batch(prelude='', future=True)
    batch.add(POSTPONED_SRC, 10)
    batch.load()
    try:
        modname = batch.modules[0].__name__
        for nm in POSTPONED_NAMES:
            obj = batch.modules[0]
            for part in nm.split('.'):
                obj = getattr(obj, part)
            check_object('postponed:' + nm, obj, st, 'annotated')
            before = st.nviol
            check_sphinx(modname + '.' + nm, obj, st)
            for v in st.viol[before:]:
                v['case'] = {'origin': 'annotated', 'name': nm}
                v['detail']['object'] = 'postponed:' + nm
    finally:
        batch.close()


def menagerie():
    """Odd callables."""
    import collections
    import dataclasses
    import enum
    import operator
    import typing
    out = []

    def add(name, obj):
        out.append(('menagerie:' + name, obj))
    add('len', len)
    add('print', print)
    add('dict', dict)
    add('type', type)
    add('object', object)
    add('int', int)
    add('str.join', str.join)
    add('bound builtin', [].append)
    add('itertools.chain', itertools.chain)
    add('operator.itemgetter(1)', operator.itemgetter(1))
    add('functools.partial(print)', functools.partial(print, end=''))
    add('functools.partial(len)', functools.partial(len))
    add('classmethod object', classmethod(lambda cls, a: a))
    add('staticmethod object', staticmethod(lambda a: a))
    add('property object', property(lambda self: 1))

    class WithCall(object):
        def __call__(self, a, *args, **kwargs):
            return a
    add('callable instance', WithCall())
    add('class with __call__', WithCall)

    class Chain1(object):
        __call__ = WithCall()
    add('__call__ chain', Chain1())

    class SigAttr(object):
        def __call__(self, *args, **kwargs):
            return 0
    sa = SigAttr()
    sa.__signature__ = inspect.signature(lambda q, r=1: 0)
    add('instance with __signature__ attribute', sa)

    class SigProp(object):
        def __call__(self, a, b):
            return 0

        @property
        def __signature__(self):
            return inspect.signature(lambda z: 0)
    add('__signature__ property', SigProp())
    add('class whose instances have a __signature__ property', SigProp)

    class SigPropRaises(object):
        def __call__(self, a, b):
            return 0

        @property
        def __signature__(self):
            raise AttributeError('no')
    add('__signature__ property raising AttributeError', SigPropRaises())

    def plain(a, b=1, *c, d, **e):
        return a
    plain2 = functools.wraps(plain)(lambda *a, **k: plain(*a, **k))
    add('functools.wraps lambda', plain2)
    add('lru_cache', functools.lru_cache(None)(plain))
    add('partialmethod holder', type('PM', (object,), {'m': functools.partialmethod(plain, 1)})().m)
    add('singledispatch', functools.singledispatch(plain))

    @dataclasses.dataclass
    class DC(object):
        x: int
        y: 'str' = 'a'
    add('dataclass', DC)
    add('dataclass.__init__', DC.__init__)
    add('namedtuple', collections.namedtuple('NT', 'a b'))
    add('enum', enum.Enum('E', 'A B'))
    add('typing.NamedTuple', typing.NamedTuple('TNT', [('a', int)]))
    add('typing.cast', typing.cast)
    add('generic alias', list[int])
    add('exec function', (lambda ns: (exec('def ex(a, *args, **kwargs):\n    return g(*args, **kwargs)\ndef g(x, y): pass', ns), ns['ex'])[1])({}))
    add('method of exec class', (lambda ns: (exec('class X:\n    def m(self, *a, **k):\n        return self.n(*a, **k)\n    def n(self, q): pass', ns), ns['X']().m)[1])({}))
    add('async function', (lambda ns: (exec('async def co(a, *args, **kwargs):\n    return 1', ns), ns['co'])[1])({}))
    import unittest.mock
    add('unittest.mock.Mock()', unittest.mock.Mock())
    add('unittest.mock.MagicMock()', unittest.mock.MagicMock())
    add('unittest.mock.Mock(spec=function)', unittest.mock.Mock(spec=lambda a, b=1: a))
    add('not callable: int', 3)
    add('not callable: None', None)
    add('not callable: str', 'abc')
    return out


# ---------------------------------------------------------------------------

def shard(tier, sh):
    kind = sh[0]
    st = runner.Stats()
    if kind == 'corpus':
        for modname in sh[1]:
            n = 0
            for name, obj in members(modname):
                n += 1
                check_object(name, obj, st, 'corpus')
                check_sphinx(name, obj, st)
            st.inc('corpus_modules')
            if n:
                st.sample({'module': modname, 'callables': n}, 1)
    elif kind == 'adversarial':
        check_adversarial(st)
        check_globals_kinds(st)
        check_odd(st)
        check_annotated(st)
    elif kind == 'menagerie':
        for name, obj in menagerie():
            check_object(name, obj, st, 'menagerie')
    return st


def run(tier, seed):
    mods = module_names()
    shards = [('corpus', tuple(mods[i:i + 6])) for i in range(0, len(mods), 6)]
    shards += [('adversarial',), ('menagerie',)]
    st = runner.run_shards(__name__, 'shard', tier, shards, seed)
    coverage = {
        'exhaustive': True,
        'states': st.c.get('states', 0),
        'transitions': st.c.get('transitions', 0),
        'traces_validated_against_impl': st.c.get('transitions', 0),
        'evaluations': st.c.get('transitions', 0) + st.c.get('evaluations', 0),
        'distinct_nontrivial': len(st.distinct.get('narrowed', ())) + len(st.distinct.get('adv_result', ())),
        'corpus_modules': st.c.get('corpus_modules', 0),
        'sphinx_objects': st.c.get('sphinx_objects', 0),
        'adversarial_programs': len(adversarial_programs()),
        'rule': 'states = callables: every function, class, method (one level), partial and callable instance of the importable '
                'standard library modules (fixed skip list) and of the installed packages listed in the module, the odd-callable '
                'menagerie, and one forwarding wrapper per (syntactic construct, position, plain/async/generator), with and '
                'without source; transitions = retrievals compared with inspect.signature (3 modes per object: same success, '
                'same exception type) + Sphinx-hook calls; for plain functions whose reported signature differs from the def, '
                'a family of call shapes is bound against both; distinct_nontrivial = objects whose signature discovery '
                'changed + distinct adversarial results',
        'bound': 'the corpus is what is importable in this sandbox; call family: n <= P+1, required keywords, plus every <=2-subset of the names',
    }
    assumptions = [
        'inspect.signature is the reference for totality and exception types',
        'the narrowing clause is checked for plain functions and methods only (no forger, __signature__ or __wrapped__)',
        'objects whose repr contains a memory address are not compared textually in the Sphinx consistency clause',
    ]
    return st, coverage, assumptions


def replay(art):
    c = art['case']
    st = runner.Stats()
    if c.get('origin') == 'corpus' or c.get('origin') == 'sphinx':
        modname = c['name']
        obj = None
        parts = c['name'].split('.')
        for cut in range(len(parts) - 1, 0, -1):
            mod = import_quiet('.'.join(parts[:cut]))
            if mod is not None:
                try:
                    obj = mod
                    for a in parts[cut:]:
                        obj = getattr(obj, a)
                    break
                except AttributeError:
                    continue
        if c['origin'] == 'sphinx':
            check_sphinx(c['name'], obj, st)
        else:
            check_object(c['name'], obj, st, 'corpus')
    elif c.get('origin') == 'menagerie':
        for name, obj in menagerie():
            if name == c['name']:
                check_object(name, obj, st, 'menagerie')
    elif c.get('origin') == 'globals':
        check_globals_kinds(st)
    elif c.get('origin') == 'odd':
        check_odd(st)
    elif c.get('origin') == 'annotated':
        check_annotated(st)
    else:
        check_adversarial(st)
    return [v['detail'] for v in st.viol] or None
