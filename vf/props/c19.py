"""C19 -- functools.partial objects get the signature Python actually enforces.

Part A (engine E1 with execution): every function of the universe x every
binding (count of positionals, keyword-name set) x nesting; the reported
signature is compared with *really calling the partial* on every call shape.
Part B (engine E3, vf/progs.py): partials of forwarding wrappers whose callee
is a bound argument."""
import functools
import inspect
import itertools

import sigtools
from sigtools import signatures as S

from vf import space, runner, callsem
from vf.space import PO, POK, VA, KWO, VK, show

PROP = 'C19'


def functions(tier):
    if tier == 'quick':
        return [s for s in space.universe(3, 'abc') if space.name_sorted(s)]
    return space.universe(3, 'abc')


def bindings(shape, tier):
    # keywords naming a positional-only parameter are version dependent (absorbed by **kwargs on >= 3.8): excluded
    names = [p[0] for p in shape if p[1] in (POK, KWO)] + ['zz']
    if tier == 'thorough':
        names += [p[0] for p in shape if p[1] in (VA, VK)] + ['yy']
    elif any(p[1] == VK for p in shape):
        names += [p[0] for p in shape if p[1] in (VA, VK)]     # absorbed by **kwargs although named like a star parameter
    npos = sum(1 for p in shape if p[1] in (PO, POK))
    for n in range(npos + 2):
        for r in range(len(names) + 1):
            for ks in itertools.combinations(names, r):
                yield n, ks


def make_partial(f, n, ks, nest):
    a = tuple(('b', i) for i in range(n))
    k = dict((nm, ('bk', nm)) for nm in ks)
    if not nest:
        return functools.partial(f, *a, **k)
    if nest == 'unflattened':
        # functools does not flatten a partial object that carries attributes of its own; the outer one binds every
        # keyword, the inner one had bound the first keyword (to another value) and the first positional
        inner = functools.partial(f, *a[:1], **dict((nm, ('inner', nm)) for nm in list(k)[:1]))
        inner.tag = 1
        return functools.partial(inner, *a[1:], **k)
    # nested: first positional and first keyword bound by the inner partial
    inner = functools.partial(f, *a[:1], **dict(list(k.items())[:1]))
    return functools.partial(inner, *a[1:], **dict(list(k.items())[1:]))


def eval_case(shape, n, ks, nest, st):
    f = callsem.valued_func(shape)
    p = make_partial(f, n, ks, nest)
    case = {'shape': space.to_json(shape), 'n': n, 'keywords': list(ks), 'nested': nest}
    base = {'function': 'def f' + show(shape), 'partial': 'partial(f, %s)' % ', '.join(
        ['<pos>'] * n + ['%s=..' % x for x in ks]) + (' [nested]' if nest else '')}
    calls = callsem.calls_for(shape, ('zz', 'yy') if 'yy' in ks else ('zz',))
    real = [callsem.run_call(p, a, k) for a, k in calls]
    anyok = any(r[0] == 'ok' for r in real)
    st.inc('transitions')
    fnames = set(q[0] for q in shape)
    for route, getter in (('signatures.signature', S.signature), ('sigtools.signature', sigtools.signature)):
        try:
            sig = getter(p)
        except ValueError as e:
            st.inc('raised')
            try:
                inspect.signature(p)
                insp = True
            except ValueError:
                insp = False
            if anyok and insp:
                i = [r[0] for r in real].index('ok')
                st.violation('partial-signature-raises', case,
                             dict(base, route=route, error=str(e), accepted_call=callsem.describe_call(*calls[i])),
                             {'route': route})
            continue
        except Exception as e:  # noqa
            st.violation('partial-signature-raises', case, dict(base, route=route, error='%s: %s' % (type(e).__name__, e)),
                         {'route': route, 'exception': type(e).__name__})
            continue
        rshape = space.shape_of(sig)
        st.seen('result', (shape, rshape))
        kwp = set(space.kwpass(rshape))
        bad = None
        ncalls = 0
        for (a, k), r in zip(calls, real):
            if any(x not in kwp and x in fnames for x in k):
                continue            # colliding
            if callsem.po_by_keyword(rshape, k) or callsem.po_by_keyword(shape, k):
                continue
            ncalls += 1
            acc = callsem.sig_accepts(sig, a, k)
            if r[0] == 'raise':
                raise runner.HarnessError('generated function raised %r' % (r,))
            if acc != (r[0] == 'ok'):
                bad = (a, k, acc, r)
                break
        st.inc('evaluations', ncalls)
        if bad:
            a, k, acc, r = bad
            st.violation('partial-signature-differs-from-calling', case,
                         dict(base, route=route, reported=str(sig), call=callsem.describe_call(a, k),
                              signature_accepts=acc, really_calling=r[0]), {'route': route})
            continue
        # structure
        probs = []
        params = sig.parameters
        unshowable = set(q[0] for q in shape if q[1] in (PO, VA, VK))
        for nm in ks:
            if nm in unshowable:
                continue    # absorbed by **kwargs but named like a parameter that stays: cannot be shown as a second parameter
            prm = params.get(nm)
            if prm is None:
                probs.append('bound keyword %r is not a parameter of the result' % nm)
                continue
            if prm.kind != prm.KEYWORD_ONLY:
                probs.append('bound keyword %r is %s, not keyword-only' % (nm, prm.kind))
            if prm.default != ('bk', nm):
                probs.append('bound keyword %r has default %r, not the bound value' % (nm, prm.default))
            if nm not in fnames or dict((q[0], q[1]) for q in shape)[nm] in (VA, VK):
                if [x for x in sig.sources.get(nm, [])] != [p] and not nest:
                    probs.append('absorbed keyword %r is not sourced to the partial object' % nm)
        kinds = dict((q[0], q[1]) for q in shape)
        if any(kinds.get(nm) == POK for nm in ks) and any(q.kind == q.VAR_POSITIONAL for q in params.values()):
            probs.append('*args survives although a positional-or-keyword parameter is bound by keyword')
        depths = sig.sources.get('+depths', {})
        if depths.get(p) != 0:
            probs.append('partial object has depth %r, not 0' % (depths.get(p),))
        for fn, d in depths.items():
            if fn is not p and d < 1:
                probs.append('%r has depth %r below the partial' % (getattr(fn, '__name__', fn), d))
        missing = [x for x in params if x not in sig.sources]
        if missing:
            probs.append('parameters without provenance: %r' % missing)
        if probs:
            st.violation('partial-signature-structure', case, dict(base, route=route, reported=str(sig), problems=probs),
                         {'route': route})


def shard(tier, sh):
    i0, i1 = sh
    st = runner.Stats()
    fs = functions(tier)
    for shape in fs[i0:i1]:
        for n, ks in bindings(shape, tier):
            st.inc('states')
            eval_case(shape, n, ks, False, st)
            if n + len(ks) >= 2 and (n >= 1 or len(ks) >= 2):
                st.inc('states')
                eval_case(shape, n, ks, True, st)
            if ks and len(ks) <= 2:
                st.inc('states')
                eval_case(shape, n, ks, 'unflattened', st)
        if len(shape) >= 3:
            st.sample({'function': 'def f' + show(shape), 'bindings': sum(1 for _ in bindings(shape, tier))}, 2)
    return st


def run(tier, seed):
    fs = functions(tier)
    per = 4
    shards = [(i, min(len(fs), i + per)) for i in range(0, len(fs), per)]
    st = runner.run_shards(__name__, 'shard', tier, shards, seed)
    extra = {}
    try:
        from vf.props import c19b
    except ImportError:
        c19b = None
    if c19b is not None:
        st2, extra = c19b.run_part(tier, seed)
        st.merge(st2)
    coverage = {
        'exhaustive': True,
        'states': st.c.get('states', 0),
        'transitions': st.c.get('evaluations', 0),
        'traces_validated_against_impl': st.c.get('evaluations', 0),
        'evaluations': st.c.get('evaluations', 0),
        'distinct_nontrivial': len(st.distinct.get('result', ())),
        'functions': len(fs),
        'rule': 'states = (function, bound positional count, bound keyword set, flat/nested) partial objects built for real; '
                'transitions = (partial, call shape) pairs where the reported signature (signatures.signature and '
                'sigtools.signature) is compared with really calling the partial (every comparison executes the real '
                'partial: traces_validated_against_impl); distinct_nontrivial = distinct (function, reported shape) pairs',
        'bound': 'quick: name-sorted functions <=3 named parameters, bound keywords from parameter names + zz; thorough: '
                 'every order, bound keywords also from star names and a second foreign name; positional count 0..P+1; '
                 'nested partials of depth 2',
    }
    coverage.update(extra)
    assumptions = [
        'non-colliding calls only: a keyword naming a parameter of f that the partial bound positionally (so that **kwargs would absorb it) is excluded, as the property says',
        'calls naming a positional-only parameter by keyword next to **kwargs are excluded (version dependent)',
        'a ValueError from retrieval is accepted when inspect.signature raises too or no call of the alphabet is accepted by the partial',
    ]
    return st, coverage, assumptions


def replay(art):
    c = art['case']
    if c.get('program'):
        from vf.props import c19b
        return c19b.replay(art)
    st = runner.Stats()
    eval_case(space.from_json(c['shape']), c['n'], tuple(c['keywords']), c['nested'], st)
    return [v['detail'] for v in st.viol] or None
