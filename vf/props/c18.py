"""C18 -- decorator application order and repeated use do not change the result.

Part A (engine E1 with execution): every function x every set of modifier
applications {kwoargs(name), posoargs(name), autokwoargs, annotate(...)} x every
permutation in which each step is admissible: equal signatures, equal call
behaviour; annotate applied last updates what the modifier advertises.
Part B (engine E6, vf/hist.py): every history (depth <= 6) of {retrieve,
bind, bind through a subclass, call, re-decorate, drop + gc.collect()} over one
class with a kwoargs method, a posoargs method, a forwards_to_method(emulate=True)
method and a wrappers.decorator method, two (equal-comparing) instances; weak
references observe reclamation."""
import gc
import inspect
import itertools
import weakref

import sigtools
from sigtools import modifiers as M

from vf import space, runner, callsem, progs, hist
from vf.props import c12
from vf.space import PO, POK, VA, KWO, VK, show

PROP = 'C18'


# ---------------------------------------------------------------------------
# part A

ANN_VARIANTS = (None, 'ret', 'param', 'both')


def steps_for(shape):
    poks = [p[0] for p in shape if p[1] == POK]
    for K in [None] + poks:
        for P in [None] + poks:
            for auto in (False, True):
                for ann in ANN_VARIANTS:
                    if ann in ('param', 'both') and not [p for p in shape if p[1] in (PO, POK, KWO)]:
                        continue
                    steps = []
                    if K:
                        steps.append(('kwo', K))
                    if P:
                        steps.append(('poso', P))
                    if auto:
                        steps.append(('auto',))
                    if ann:
                        steps.append(('ann', ann))
                    if len(steps) >= 2:
                        yield tuple(steps)


def apply_step(obj, step, shape):
    if step[0] == 'kwo':
        return M.kwoargs(step[1])(obj)
    if step[0] == 'poso':
        return M.posoargs(step[1])(obj)
    if step[0] == 'auto':
        return M.autokwoargs(obj)
    first = [p[0] for p in shape if p[1] in (PO, POK, KWO)]
    kw = {}
    if step[1] in ('param', 'both'):
        kw[first[0]] = 'ANN'
    if step[1] in ('ret', 'both'):
        return M.annotate('RET', **kw)(obj)
    return M.annotate(**kw)(obj)


def describe(sig):
    return (tuple(callsem.param_tuple(sig)), '<empty>' if sig.return_annotation is inspect.Signature.empty else sig.return_annotation)


def eval_function(shape, st):
    calls = callsem.calls_for(shape)
    for steps in steps_for(shape):
        st.inc('states')
        outcomes = []
        for perm in itertools.permutations(steps):
            f = callsem.valued_func(shape, cache=False)
            obj = f
            try:
                for s in perm:
                    obj = apply_step(obj, s, shape)
            except ValueError:
                continue        # this order is not admissible
            st.inc('transitions')
            try:
                isig = inspect.signature(obj)
                ssig = sigtools.signature(obj)
            except Exception as e:  # noqa
                st.violation('retrieval-raises', {'part': 'A', 'shape': space.to_json(shape), 'steps': [list(x) for x in perm]},
                             {'function': 'def f' + show(shape), 'order': [list(x) for x in perm], 'error': '%s: %s' % (type(e).__name__, e)}, {})
                continue
            outcomes.append((perm, obj, describe(isig), describe(ssig)))
        if len(outcomes) < 1:
            continue
        case = {'part': 'A', 'shape': space.to_json(shape), 'steps': [list(x) for x in steps]}
        ref = outcomes[0]
        bad = None
        for o in outcomes:
            if o[2] != o[3]:
                bad = ('inspect.signature and sigtools.signature disagree', o, o)
                break
            if o[2] != ref[2]:
                bad = ('advertised signature depends on the application order', ref, o)
                break
        ann = [s for s in steps if s[0] == 'ann']
        if bad is None and ann:
            # whatever the order, the annotation must be advertised
            want_ret = 'RET' if ann[0][1] in ('ret', 'both') else '<empty>'
            for o in outcomes:
                if o[2][1] != want_ret:
                    bad = ('return annotation given to annotate is not advertised (expected %r)' % (want_ret,), o, o)
                    break
                if ann[0][1] in ('param', 'both'):
                    first = [p[0] for p in shape if p[1] in (PO, POK, KWO)][0]
                    if dict((r[0], r[3]) for r in o[2][0]).get(first) != 'ANN':
                        bad = ('parameter annotation given to annotate is not advertised', o, o)
                        break
        if bad:
            st.violation('modifier-order-dependence', case,
                         {'function': 'def f' + show(shape), 'problem': bad[0], 'order_1': [list(x) for x in bad[1][0]],
                          'advertised_1': repr(bad[1][2])[:300], 'order_2': [list(x) for x in bad[2][0]],
                          'advertised_2': repr(bad[2][2])[:300]}, {'annotate': ann[0][1] if ann else None})
            continue
        st.seen('result', (shape, ref[2]))
        if len(outcomes) < 2:
            continue
        n = 0
        exp_shape = tuple((r[0], r[1], r[2] != '<empty>') for r in ref[2][0])
        for a, k in calls:
            if callsem.po_by_keyword(exp_shape, k):
                continue
            n += 1
            r0 = callsem.run_call(ref[1], a, k)
            for o in outcomes[1:]:
                r1 = callsem.run_call(o[1], a, k)
                if not callsem.same_outcome(r0, r1):
                    st.violation('modifier-order-dependence', case,
                                 {'function': 'def f' + show(shape), 'problem': 'call behaviour depends on the application order',
                                  'order_1': [list(x) for x in ref[0]], 'order_2': [list(x) for x in o[0]],
                                  'call': callsem.describe_call(a, k), 'result_1': repr(r0)[:200], 'result_2': repr(r1)[:200]},
                                 {'annotate': ann[0][1] if ann else None})
                    n = -1
                    break
            if n < 0:
                break
        st.inc('evaluations', max(n, 0))


def a_shard(tier, sh):
    i0, i1 = sh
    st = runner.Stats()
    for shape in c12.functions(tier)[i0:i1]:
        eval_function(shape, st)
        if len(shape) >= 3:
            st.sample({'part': 'A', 'function': 'def f' + show(shape), 'step_sets': sum(1 for _ in steps_for(shape))}, 1)
    return st


# ---------------------------------------------------------------------------
# part B

WORLD_SRC = '''
from sigtools import modifiers, specifiers, wrappers


def deco(func, d, *args, **kwargs):
    return (d,) + func(*args, **kwargs)


def wdeco(func, *args, **kwargs):
    return func(*args, **kwargs)


def GLOBAL_TARGET(x, y=2):
    return (x, y)


def make_classes():
    class K(object):
        def __init__(self, tag):
            self.tag = tag
            self.val = 0

        def __eq__(self, other):
            return isinstance(other, K) and self.val == other.val

        def __ne__(self, other):
            return not self == other

        def __hash__(self):
            return hash(self.val)

        def __len__(self):
            return self.val         # the instances are falsy containers (val == 0)

        @modifiers.kwoargs('b')
        def m_kwo(self, a, b=1):
            return (self.tag, a, b)

        @modifiers.posoargs(end='a')
        def m_pos(self, a, b=1):
            return (self.tag, a, b)

        def target(self, x, y=2):
            return (self.tag, x, y)

        @specifiers.forwards_to_method('target', emulate=True)
        def m_fwd(self, a, *args, **kwargs):
            # the body hides the target from automatic discovery: only the declaration knows it
            return (self.tag, a) + getattr(self, 'tar' + 'get')(*args, **kwargs)

        @wrappers.decorator(deco)
        def m_deco(self, q, r=1):
            return (self.tag, q, r)

        # forwards to an attribute that exists only once the instance is configured: until then the forger fails
        @specifiers.forwards_to_method('late_target', emulate=True)
        def m_late(self, a, *args, **kwargs):
            return (self.tag, a) + getattr(self, 'late_' + 'target')(*args, **kwargs)

        # an intermediate translator that stays in use on its own while another modifier is stacked on it
        def _base(self, a, b=1, c=2):
            return (self.tag, a, b, c)
        m_base = modifiers.kwoargs('c')(_base)
        m_strict = modifiers.posoargs(end='a')(m_base)

        # a translator whose function forwards its stars in a way automatic discovery resolves
        @modifiers.kwoargs('b')
        def m_kwofwd(self, a, b=1, *args, **kwargs):
            return (self.tag, a, b) + GLOBAL_TARGET(*args, **kwargs)

        # wrappers above a classmethod: bound to the owner, through the class as through an instance
        @wrappers.wrapper_decorator(wdeco)
        @classmethod
        def m_wcls(cls, q, r=1):
            return (cls.__name__, q, r)

        @wrappers.decorator(wdeco)
        @classmethod
        def m_dcls(cls, q, r=1):
            return (cls.__name__, q, r)

        @classmethod
        def t_cls(cls, q, r=1):
            return (cls.__name__, q, r)

        # the same conversions written as two stacked modifiers and as one, under a forger that needs the instance
        @specifiers.forwards_to_method('target')
        @modifiers.kwoargs('b')
        @modifiers.kwoargs('c')
        def st_two(self, a, b=1, c=2, *args, **kwargs):
            return (self.tag, a, b, c) + getattr(self, 'tar' + 'get')(*args, **kwargs)

        @specifiers.forwards_to_method('target')
        @modifiers.kwoargs('b', 'c')
        def st_one(self, a, b=1, c=2, *args, **kwargs):
            return (self.tag, a, b, c) + getattr(self, 'tar' + 'get')(*args, **kwargs)

        # start= / end= forms stacked in both orders, and what Python itself makes of the result
        @modifiers.posoargs(end='a')
        @modifiers.kwoargs(start='c')
        def se_pk(self, a, b, c, d):
            return (self.tag, a, b, c, d)

        @modifiers.kwoargs(start='c')
        @modifiers.posoargs(end='a')
        def se_kp(self, a, b, c, d):
            return (self.tag, a, b, c, d)

        def se_ref(self, a, /, b, *, c, d):
            return (self.tag, a, b, c, d)

    class Sub(K):
        pass
    return K, Sub
'''
METHODS = ('m_kwo', 'm_pos', 'm_fwd', 'm_deco', 'm_late', 'm_base', 'm_strict', 'm_kwofwd')
STD_ARGS = {'m_kwo': (10,), 'm_pos': (10,), 'm_fwd': (10, 20), 'm_deco': (5, 10), 'm_late': (10, 20), 'm_base': (10,),
            'm_strict': (10,), 'm_kwofwd': (10, 1, 20)}
OWNER_BOUND = ('m_wcls', 'm_dcls')
_MOD = {}


def world_module():
    if 'm' not in _MOD:
        b = progs.Batch(prelude='')
        b.add(WORLD_SRC, 30)
        b.load()
        _MOD['m'], _MOD['b'] = b.modules[0], b
    return _MOD['m']


class World(object):
    def __init__(self):
        self.K, self.Sub = world_module().make_classes()
        self.inst = {0: self.K('i0'), 1: self.K('i1')}
        self.refs = dict((i, weakref.ref(o)) for i, o in self.inst.items())
        self.kept = []
        self.annotated = False
        self.touched = {0: set(), 1: set()}
        self.configured = set()


CORE_METHODS = ('m_kwo', 'm_pos', 'm_fwd', 'm_deco', 'm_late')
_MENU = {'methods': METHODS, 'fill': True}


def ops(w):
    methods = _MENU['methods']
    out = []
    for m in methods:
        out.append(('sigc', m))
        out.append(('bindsub', m))
    if not w.annotated:
        out.append(('annotate',))
    for i in sorted(w.inst):
        for m in methods:
            out.append(('sig', i, m))
            out.append(('isig', i, m))
            out.append(('call', i, m))
            out.append(('bind', i, m, False))
            if m in ('m_kwo', 'm_fwd'):
                out.append(('bind', i, m, True))
        if i not in w.configured:
            out.append(('configure', i))
        if _MENU['fill'] and not inst_val(w, i):
            out.append(('fill', i))
        out.append(('drop', i))
    return out


def inst_val(w, i):
    return w.inst[i].val


def safe(fn):
    try:
        return ('ok', fn())
    except Exception as e:  # noqa: compared
        return ('raise', type(e).__name__, str(e)[:200])


def apply_op(w, op):
    kind = op[0]
    if kind == 'sigc':
        return safe(lambda: str(sigtools.signature(getattr(w.K, op[1]))))
    if kind == 'bindsub':
        s = w.Sub('sub')
        return safe(lambda: getattr(s, op[1])(*STD_ARGS[op[1]]))
    if kind == 'annotate':
        w.annotated = True
        return safe(lambda: (M.annotate('R')(w.K.__dict__['m_kwo']), M.annotate('R', a=int)(w.K.__dict__['m_kwofwd']), 'done')[2])
    i = op[1]
    inst = w.inst[i]
    if kind == 'configure':
        w.configured.add(i)
        inst.late_target = inst.target
        return ('ok', 'configured')
    if kind == 'fill':
        # the container gets an element: the instance turns truthy and stops comparing equal to its sibling;
        # nothing a signature or a call result may depend on
        inst.val = 5
        return ('ok', 'filled')
    if kind == 'sig':
        w.touched[i].add(op[2])
        return safe(lambda: str(sigtools.signature(getattr(inst, op[2]))))
    if kind == 'isig':
        w.touched[i].add(op[2])
        return safe(lambda: str(inspect.signature(getattr(inst, op[2]))))
    if kind == 'call':
        w.touched[i].add(op[2])
        return safe(lambda: getattr(inst, op[2])(*STD_ARGS[op[2]]))
    if kind == 'bind':
        w.touched[i].add(op[2])
        b = safe(lambda: getattr(inst, op[2]))
        if b[0] != 'ok':
            return b
        if op[3]:
            w.kept.append((i, op[2], b[1]))
        return safe(lambda: ('bound', b[1](*STD_ARGS[op[2]])))
    if kind == 'drop':
        touched = tuple(sorted(w.touched[i]))
        w.kept = [k for k in w.kept if k[0] != i]
        ref = w.refs[i]
        del w.inst[i]
        inst = None
        gc.collect()
        alive = ref() is not None
        cause = None
        if alive:
            # which cache keeps it?  empty the modifiers descriptors' caches and look again
            n = 0
            for name, desc in vars(w.K).items():
                cache = getattr(desc, 'insts', None)
                if cache is not None:
                    n += len(cache)
                    cache.clear()
            gc.collect()
            cause = 'modifiers-descriptor-cache' if (ref() is None and n) else 'other'
        return ('drop', alive, cause, touched)
    raise AssertionError(op)


def canon(w):
    caches = tuple(sorted((name, len(desc.insts)) for name, desc in vars(w.K).items() if hasattr(desc, 'insts')))
    return (tuple(sorted(w.inst)), tuple(sorted((i, m) for i, m, _ in w.kept)), w.annotated, caches,
            tuple((i, tuple(sorted(vars(o))), o.val) for i, o in sorted(w.inst.items())),
            tuple((i, tuple(sorted(t))) for i, t in sorted(w.touched.items()) if i in w.inst))


_REF = {}


def reference(op, annotated, configured=False):
    """What the operation returns on fresh objects (history-free), with the same decoration / configuration state."""
    key = (op, annotated, configured)
    if key not in _REF:
        w = World()
        if annotated:
            apply_op(w, ('annotate',))
        if configured:
            apply_op(w, ('configure', op[1]))
        _REF[key] = apply_op(w, op)
    return _REF[key]


def b_run(depth, st, prefix=()):
    def check(w, history, op, obs):
        case = {'part': 'B', 'history': [list(x) for x in history], 'op': list(op)}
        if op[0] == 'drop':
            if obs[1]:
                st.violation('instance-not-reclaimed', case,
                             {'history': [list(x) for x in history + (op,)], 'instance': op[1], 'methods_used_on_it': list(obs[3]),
                              'kept_alive_by': obs[2]},
                             {'cause': obs[2], 'methods': '+'.join(m for m in obs[3] if m in ('m_kwo', 'm_pos')) or 'none'})
            return
        was_annotated = w.annotated and op[0] != 'annotate'
        conf = len(op) > 1 and op[1] in w.configured and op[0] != 'configure'
        want = reference(op, was_annotated if op[0] != 'annotate' else False, conf)
        if obs != want:
            st.violation('result-depends-on-history', case,
                         {'history': [list(x) for x in history], 'operation': list(op), 'after_this_history': repr(obs)[:300],
                          'on_fresh_objects': repr(want)[:300]}, {'op': op[0], 'method': op[2] if len(op) > 2 else op[-1]})
        st.seen('obs', (op, obs))
    return hist.bfs(World, ops, apply_op, canon, check, depth, st, prefix)


def owner_checks(st):
    """Wrappers above a classmethod: retrieval and calls through the class, a subclass and instances of both agree with each
    other and with what Python's own classmethod does (the undecorated twin t_cls)."""
    w = World()
    owners = (('K', w.K), ('K()', w.K('i')), ('Sub', w.Sub), ('Sub()', w.Sub('s')))
    for m in OWNER_BOUND:
        sigs = {}
        for label, owner in owners:
            st.inc('transitions')
            want = safe(lambda: getattr(owner, 't_cls')(3))
            got = safe(lambda: getattr(owner, m)(3))
            sigs[label] = safe(lambda: str(sigtools.signature(getattr(owner, m))))
            if got != want:
                st.violation('result-depends-on-history', {'part': 'B', 'history': [], 'op': ['owner', m, label]},
                             {'operation': '%s.%s(3)' % (label, m), 'result': repr(got)[:200],
                              'the_same_classmethod_undecorated': repr(want)[:200]}, {'op': 'owner', 'method': m})
        if len(set(sigs.values())) != 1 or list(sigs.values())[0][0] != 'ok':
            st.violation('result-depends-on-history', {'part': 'B', 'history': [], 'op': ['owner-signature', m]},
                         {'operation': 'sigtools.signature(<owner>.%s)' % m, 'by_owner': dict((k_, repr(v)[:120]) for k_, v in sigs.items())},
                         {'op': 'owner-signature', 'method': m})
        st.seen('obs', ('owner', m, tuple(sorted(sigs.items()))))
    # stacked modifiers bound to an instance: equal to the single-modifier spelling / to each other / to the native def
    for label, owner in owners[1::2]:
        groups = (('st_two', 'st_one'), ('se_pk', 'se_kp', 'se_ref'))
        calls = [((1,), {}), ((1, 2), {}), ((1, 2, 3), {}), ((1, 2, 3, 4), {}), ((1,), {'b': 5}), ((1, 9), {'b': 5, 'c': 6}),
                 ((1, 2), {'c': 3, 'd': 4}), ((1,), {'b': 2, 'c': 3, 'd': 4}), ((), {'a': 1, 'b': 2, 'c': 3, 'd': 4}),
                 ((1, 7, 8), {'b': 5, 'c': 6})]
        for group in groups:
            obs = {}
            for m in group:
                st.inc('transitions')
                bound = safe(lambda: getattr(owner, m))
                if bound[0] != 'ok':
                    obs[m] = bound
                    continue
                obs[m] = (safe(lambda: str(sigtools.signature(bound[1]))), safe(lambda: bound[1].__self__ is owner),
                          tuple(safe(lambda a=a, k=k: bound[1](*a, **k))[:2] for a, k in calls))
            if len(set(obs.values())) != 1:
                st.violation('modifier-order-dependence', {'part': 'B', 'history': [], 'op': ['stacked-bound', group[0], label]},
                             {'operation': 'bound through %s' % label, 'methods': list(group),
                              'observed': dict((m, repr(v)[:400]) for m, v in obs.items())}, {'op': 'stacked-bound', 'method': group[0]})
            st.seen('obs', ('stacked-bound', group, label, repr(sorted(obs.items()))[:200]))


def b_shard(tier, sh):
    """One shard = every history that starts with one given first operation (its own visited set: states reached from
    different first operations are explored again, which costs time, not coverage)."""
    st = runner.Stats()
    # sh[1]: 0 = the whole menu (depth 3 quick / 4 thorough); 1 = a reduced menu (five methods, no fill), kept for experiments
    core = len(sh) > 1 and sh[1] == 1
    _MENU['methods'], _MENU['fill'] = (CORE_METHODS, False) if core else (METHODS, True)
    depth = 5 if core else (3 if tier == 'quick' else 4)
    first_ops = ops(World())
    k = sh[0]
    if k < 0:
        # the first step itself: every operation from the initial state
        w0 = World()
        for op in first_ops:
            w = World()
            obs = apply_op(w, op)
            st.inc('transitions')
            if op[0] == 'drop':
                continue
            want = reference(op, False, False)
            if obs != want:
                raise runner.HarnessError('reference is not reproducible for %r' % (op,))
        st.inc('states', 1)
        owner_checks(st)
        return st
    states, trans, deep = b_run(depth, st, prefix=(first_ops[k],))
    st.c['history_depth'] = 0
    st.notes.append(deep)
    if k == 0:
        st.sample({'part': 'B', 'operations': [list(o) for o in first_ops][:8], 'depth': depth, 'first_operation': list(first_ops[k]),
                   'canonical_states': states}, 1)
    return st


def shard(tier, sh):
    if sh[0] == 'A':
        return a_shard(tier, sh[1:])
    return b_shard(tier, sh[1:])


def run(tier, seed):
    fs = c12.functions(tier)
    nops = len(ops(World()))
    shards = [('B', k, 0) for k in range(-1, nops)] + [('A', i, min(len(fs), i + 4)) for i in range(0, len(fs), 4)]

    st = runner.run_shards(__name__, 'shard', tier, shards, seed)
    st.c['history_depth'] = max([d for d in st.notes if isinstance(d, int)] or [0])
    st.notes = []
    coverage = {
        'exhaustive': True,
        'states': st.c.get('states', 0),
        'transitions': st.c.get('transitions', 0),
        'traces_validated_against_impl': st.c.get('transitions', 0),
        'evaluations': st.c.get('transitions', 0) + st.c.get('evaluations', 0),
        'distinct_nontrivial': len(st.distinct.get('result', ())) + len(st.distinct.get('obs', ())),
        'history_depth_completed': st.c.get('history_depth', 0),
        'rule': 'part A: states = (function, set of modifier steps); transitions = admissible application orders really applied; '
                'all admissible orders must advertise the same signature (inspect and sigtools), include what annotate was given, '
                'and behave identically on every call of the alphabet. part B: breadth-first search over operation histories on '
                'live objects (fresh objects + replay per transition), states deduplicated on (live instances, kept binds, '
                'decoration state, descriptor cache sizes, instance dictionaries, methods used per instance); every transition '
                'compares what the operation returns with the same operation on fresh objects, every drop checks the weak '
                'reference after gc.collect(); every transition runs the real code',
        'bound': 'part A: functions as C12; steps: one kwoargs name, one posoargs name, autokwoargs, annotate in 3 forms; part B: '
                 '%s; 8 decorated methods, 2 equal-comparing falsy instances + subclass' % (
                     'depth 3 over the whole operation menu (quick)' if tier == 'quick' else
                     'depth 4 over the whole operation menu (thorough)'),
    }
    assumptions = [
        'an application order in which some step raises ValueError is not admissible and is not compared',
        'reclamation is observed with weakref + gc.collect() (deterministic in CPython)',
    ]
    return st, coverage, assumptions


def replay(art):
    c = art['case']
    st = runner.Stats()
    if c['part'] == 'A':
        eval_function(space.from_json(c['shape']), st)
    else:
        w = World()
        for op in c['history']:
            apply_op(w, tuple(tuple(x) if isinstance(x, list) else x for x in op))
        op = tuple(c['op'])
        obs = apply_op(w, op)
        if op[0] == 'drop':
            if obs[1]:
                return [{'history': c['history'], 'op': list(op), 'alive_after_drop': True, 'kept_alive_by': obs[2]}]
            return None
        want = reference(op, w.annotated and op[0] != 'annotate', len(op) > 1 and op[1] in w.configured and op[0] != 'configure')
        if obs != want:
            return [{'history': c['history'], 'op': list(op), 'after_history': repr(obs)[:300], 'fresh': repr(want)[:300]}]
    return runner.fresh_details('C18', st) or None
