"""C19 part B (engine E3): partials of forwarding wrappers whose callee is a bound argument.

Routes: 'param' (callee bound positionally -> discovery looks through the partial), 'param_kw' (callee bound by
keyword -> not resolved), 'param_default' (callee only a default value, the partial binds another positional -> not
resolved: the caller of the partial can still override it)."""
import functools

import sigtools
from sigtools import signatures as S

from vf import space, alg, runner, grammar, discovery, slices
from vf.grammar import Prog, CallSpec
from vf.space import PO, POK, VA, KWO, VK, shape_of


def programs(tier):
    out = []
    for (o, c) in slices.pairs(tier):
        for cs in slices.four_argshapes(o, c):
            for ctx in ('return', 'if', 'nested', 'lambda', 'arg_of_call'):
                out.append(Prog(o, (cs,), ctx, 'param', None))
                out.append(Prog(o, (cs,), ctx, 'param_nested', None))
                if ctx in ('return', 'nested'):
                    out.append(Prog(o, (cs,), ctx, 'param_subclass', None))
                    if not any(p[1] == PO for p in o):
                        out.append(Prog(o, (cs,), ctx, 'param_kwo', None))
                out.append(Prog(o, (cs,), ctx, 'param_kw', None))
                out.append(Prog(o, (cs,), ctx, 'param_method', None))
                if o and o[0][1] in (PO, POK):
                    out.append(Prog(o, (cs,), ctx, 'param_default', None))
    return out


def eval_prog(ld, st):
    pr = ld.prog
    case = {'program': grammar.to_json(pr), 'op': 'program'}
    st.inc('states')
    w = ld.w
    try:
        sig = sigtools.signature(w)
    except Exception as e:  # noqa
        st.violation('partial-of-wrapper-retrieval-raises', case,
                     {'program': discovery.show_prog(ld), 'error': '%s: %s' % (type(e).__name__, e)}, {'route': pr.route})
        return
    pl = S.signature(w)
    F = w.func.func if pr.route == 'param_nested' else w.func
    cs = pr.calls[0]
    why = 'plain'
    exp = pl
    if pr.route in ('param', 'param_nested', 'param_kwo', 'param_subclass', 'param_method'):
        uva, uvk, hva, hvk = discovery.call_flags(pr, 0)
        if uva or uvk:
            try:
                Ff = F.__func__ if pr.route == 'param_method' else F
                full = S.forwards(S.signature(Ff), sigtools.signature(ld.callees[0]), cs.npos, *cs.names,
                                  use_varargs=uva, use_varkwargs=uvk, hide_args=hva, hide_kwargs=hvk)
                exp = S.mask(full, 2 if pr.route == 'param_method' else 1)
                why = 'looked-through'
            except ValueError:
                pass
    st.inc('expect:' + why)
    if alg.params_key(sig) != alg.params_key(exp):
        st.violation('partial-of-wrapper-signature', case,
                     {'program': discovery.show_prog(ld), 'reported': str(sig), 'expected': str(exp), 'expectation': why,
                      'rule': 'bound positionals resolve the callee; bound keywords and default values do not'},
                     {'route': pr.route, 'why': why})
        return
    depths = sig.sources.get('+depths', {})
    probs = []
    if depths.get(w) != 0:
        probs.append('partial object depth %r, not 0' % (depths.get(w),))
    nested = 1 if pr.route == 'param_nested' else 0
    if nested and depths.get(w.func, 1) != 1:
        probs.append('inner partial object depth %r, not 1' % (depths.get(w.func),))
    if pr.route != 'param_method' and depths.get(F, 1 + nested) != 1 + nested:
        probs.append('wrapped function depth %r, not %d' % (depths.get(F), 1 + nested))
    if why == 'looked-through' and depths.get(ld.callees[0]) not in ((2 + nested,) if pr.route != 'param_method' else (2, 3)):
        probs.append('callee depth %r, not below the partial and the forwarder' % (depths.get(ld.callees[0]),))
    if probs:
        st.violation('partial-of-wrapper-depths', case, {'program': discovery.show_prog(ld), 'reported': str(sig),
                                                        'sources': alg.src_show(sig), 'problems': probs}, {'route': pr.route})
        return
    st.seen('result', (pr.outer, cs.callee, shape_of(sig), pr.route))
    if why != 'looked-through':
        return      # the plain signature of the partial is reported: nothing is claimed about the callee
    # sibling partial objects: the same function and bound positionals, one more bound keyword -- each object has the
    # signature of its own bindings, whatever was retrieved before
    for kw in space.kwpass(shape_of(exp))[:2]:
        if pr.route == 'param_nested':
            break
        w2 = functools.partial(w.func, *w.args, **dict(w.keywords, **{kw: ('sibling', kw)}))
        st.inc('transitions')
        try:
            sig2 = sigtools.signature(w2)
            again = sigtools.signature(w)
        except Exception as e:  # noqa
            st.violation('partial-of-wrapper-retrieval-raises', case,
                         {'program': discovery.show_prog(ld), 'sibling_binding': kw, 'error': '%s: %s' % (type(e).__name__, e)},
                         {'route': pr.route, 'object': 'sibling'})
            break
        q = sig2.parameters.get(kw)
        probs = []
        if q is None or q.kind != q.KEYWORD_ONLY or q.default != ('sibling', kw):
            probs.append('bound keyword %r is not a keyword-only parameter with the bound value as default' % kw)
        d2 = sig2.sources.get('+depths', {})
        if d2.get(w2) != 0 or w in d2:
            probs.append('depths name %s, not this partial object at depth 0' % ('the sibling' if w in d2 else 'nothing'))
        if alg.params_key(again) != alg.params_key(sig):
            probs.append('the first partial object now reports %s' % again)
        if probs:
            st.violation('partial-of-wrapper-signature', case,
                         {'program': discovery.show_prog(ld), 'first_partial': str(sig), 'sibling_binding': kw,
                          'sibling_reported': str(sig2), 'problems': probs}, {'route': pr.route, 'why': 'sibling'})
            break
    # execution: every non-colliding call the reported signature accepts runs
    rshape = shape_of(sig)
    alpha = discovery.alphabet()
    ins = discovery.input_shapes(ld)
    known = set(nm for s_ in ins for nm in space.names_of(s_)) | {'fn0', 'opt_'}
    if any(p[0] not in known for p in rshape):
        st.violation('partial-of-wrapper-signature', case, {'program': discovery.show_prog(ld), 'reported': str(sig),
                                                           'problem': 'parameter of neither wrapper nor callee'}, {'route': pr.route})
        return
    # optional keyword-only fn0 / opt_: never passed by the driver
    rshape_b = tuple(p for p in rshape if not (p[0] in ('fn0', 'opt_') and p[1] == KWO and p[2]))
    bits = alpha.acc(rshape_b) & alpha.noncolliding(rshape_b, ins) & ~alpha.excluded(rshape_b)
    for s_ in ins:
        bits &= ~alpha.excluded(s_)
    bits &= alpha.kw_disjoint(set(cs.names))
    n_exec = 0
    for n, K in alpha.iter_bits(bits):
        n_exec += 1
        if not discovery.exec_call(ld, n, K):
            st.violation('partial-of-wrapper-accepted-call-raises', case,
                         {'program': discovery.show_prog(ld), 'reported': str(sig), 'call': {'positionals': n, 'keywords': K}},
                         {'route': pr.route})
            break
    st.inc('evaluations', n_exec)


def shard(tier, sh):
    i0, i1 = sh
    plist = programs(tier)[i0:i1]
    st = runner.Stats()
    batch, loaded = discovery.load(plist, uid_base=i0)
    try:
        for ld in loaded:
            eval_prog(ld, st)
        if loaded:
            st.sample({'part': 'B', 'program': discovery.show_prog(loaded[0])}, 1)
    finally:
        batch.close()
    return st


def run_part(tier, seed):
    n = len(programs(tier))
    shards = [(i, min(n, i + 60)) for i in range(0, n, 60)]
    st = runner.run_shards(__name__, 'shard', tier, shards, seed)
    return st, {'part_B_programs': n,
                'part_B': 'partials of forwarding wrappers: %d programs (pairs x argument shapes x 5 contexts x routes '
                          'param / param_kw / param_default), each compared with mask(forwards(...), 1) or the plain '
                          'signature, depths 0/1/2 checked, and executed on every accepted non-colliding call' % n}


def replay(art):
    pr = grammar.from_json(art['case']['program'])
    st = runner.Stats()
    batch, loaded = discovery.load([pr])
    try:
        eval_prog(loaded[0], st)
    finally:
        batch.close()
    return [v['detail'] for v in st.viol] or None
