"""C13 -- wrappers.decorator / wrapper_decorator / Combination are call-transparent.

Engine E3 with execution: decorator functions live in a real generated module
(discovery needs their source); every decorator function x decorated function
x API x stack depth x placement is really built and called on every call shape,
and compared with the hand-written composition."""
import inspect
import itertools

import sigtools
from sigtools import wrappers as W

from vf import space, runner, callsem, progs
from vf.binder import Alphabet
from vf.space import PO, POK, VA, KWO, VK, show, shape_of

PROP = 'C13'
OWN = ('none', 'pok', 'pokopt', 'kwo', 'kwoopt', 'po')
NAMES = ('x', 'y', 'd1', 'd2', 'd3', 'args', 'kwargs', 'zz')
_ALPHA = {}


def alphabet(which='stack'):
    if which not in _ALPHA:
        if which == 'stack':
            _ALPHA[which] = Alphabet(NAMES + ('self',), 6)
        elif which == 'fwd':
            _ALPHA[which] = Alphabet(('a', 'x', 'y', 'z', 'd1', 'args', 'kwargs', 'zz', 'self'), 6)
        else:
            _ALPHA[which] = Alphabet(('arg', 'v', 'x', 'y', 'z', 'args', 'kwargs', 'zz'), 5)
    return _ALPHA[which]


def deco_src():
    out = ['from sigtools import wrappers, modifiers\n']
    for i in (1, 2, 3):
        d = 'd%d' % i
        sigs = {
            'none': 'func, *args, **kwargs',
            'pok': 'func, %s, *args, **kwargs' % d,
            'pokopt': "func, %s='dd%d', *args, **kwargs" % (d, i),
            'kwo': 'func, *args, %s, **kwargs' % d,
            'kwoopt': "func, *args, %s='dd%d', **kwargs" % (d, i),
            'po': 'func, %s, /, *args, **kwargs' % d,
        }
        for kind, params in sigs.items():
            val = 'None' if kind == 'none' else d
            out.append("def D%d_%s(%s):\n    return ('D%d', %s, func(*args, **kwargs))\n" % (i, kind, params, i, val))
    out.append("def FWD_target(x, y='dy', *, z='dz'):\n    return ('T', x, y, z)\n")
    out.append("def F_fwd(a, *args, **kwargs):\n    return ('FW', a, FWD_target(*args, **kwargs))\n")
    out.append("from sigtools import specifiers\n@specifiers.forwards_to_function(FWD_target)\ndef F_declared(a, *args, **kwargs):\n    return ('FD', a, FWD_target(*args, **kwargs))\n")
    out.append("class Boom(Exception):\n    pass\n")
    out.append("def F_raise(x, y='dy'):\n    raise Boom(x, y)\n")
    out.append("def D_raise(func, *args, **kwargs):\n    func(*args, **kwargs)\n    raise LookupError('from the decorator')\n")
    out.append("def DF_pos(func, *args, **kwargs):\n    return ('DFp', func('c0', *args, **kwargs))\n")
    out.append("def DF_kw(func, *args, **kwargs):\n    return ('DFk', func(*args, y='cy', **kwargs))\n")
    fam = {
        'v': 'v', 'vx': 'v, x', 'vxo': "v, x='dx'", 'vxy': 'v, x, y', 'vxyo': "v, x, y='dy'", 'va': 'v, *args',
        'vk': 'v, **kwargs', 'vak': 'v, *args, **kwargs', 'vz': 'v, *, z', 'vxzo': "v, x, *, z='dz'",
        'vxazk': "v, x, *args, z='dz', **kwargs",
    }
    for nm, params in fam.items():
        out.append("def CF_%s(%s):\n    return ('%s', locals())\n" % (nm, params, nm))
    return '\n'.join(out), sorted(fam)


OWN_SHAPE = {
    'none': (), 'pok': (('d', POK, False),), 'pokopt': (('d', POK, True),), 'kwo': (('d', KWO, False),),
    'kwoopt': (('d', KWO, True),), 'po': (('d', PO, False),),
}


def deco_shape(i, kind):
    """Shape of decorator function i without its func parameter."""
    d = 'd%d' % i
    own = tuple((d, k, o) for _, k, o in OWN_SHAPE[kind])
    pos = tuple(p for p in own if p[1] in (PO, POK))
    kwo = tuple(p for p in own if p[1] == KWO)
    return pos + (('args', VA, False),) + kwo + (('kwargs', VK, False),)


def decorated_functions(tier):
    u = space.universe(2, 'xy')
    if tier == 'quick':
        u = [s for s in u if space.name_sorted(s)]
    return u


def self_param(shape):
    return (('self', PO if any(p[1] == PO for p in shape) else POK, False),)


def make_f(shape, method):
    sh = (self_param(shape) + shape) if method else shape
    names = [p[0] for p in sh]
    # a method also reports which object it ran on (instances may compare equal without being the same object)
    body = "return ('F', {%s})" % ', '.join(['%r: %s' % (n, n) for n in names if n != 'self'] + (["'<self>': id(self)"] if method else []))
    ns = {}
    exec(compile('def f(%s):\n    %s\n' % (space.render(sh, dict((p[0], repr('d_' + p[0])) for p in sh if p[2])), body),
                 '<vf:c13>', 'exec'), ns)
    return ns['f']


def outcome_eq(a, b):
    return callsem.same_outcome(a, b)


def check_object(g, comp, shapes_in, expect_wrappers, st, case, base, tag, which_alpha='stack'):
    """g: the wrapped callable as the user calls it; comp: hand-written composition; shapes_in: input shapes for the
    non-colliding clause."""
    alpha = alphabet(which_alpha)
    try:
        ssig = sigtools.signature(g)
        isig = inspect.signature(g)
    except Exception as e:  # noqa
        names_ = [nm for s_ in shapes_in for nm in space.names_of(s_) if nm not in ('args', 'kwargs')]
        if isinstance(e, ValueError) and len(set(names_)) != len(names_):
            # decorator and decorated function declare a parameter of the same name: refusing to report a signature is an
            # answer (nothing is claimed then); reporting one is judged below like any other
            st.inc('refused-on-name-collision')
            return None
        st.violation('signature-retrieval-raises', case, dict(base, object=tag, error='%s: %s' % (type(e).__name__, e)),
                     {'object': tag, 'exception': type(e).__name__})
        return None
    st.inc('transitions')
    if expect_wrappers is not None:
        got = list(W.wrappers(g))
        if got != expect_wrappers:
            st.violation('wrappers-list', case, dict(base, object=tag, got=[getattr(x, '__name__', repr(x)) for x in got],
                                                    expected=[x.__name__ for x in expect_wrappers]), {})
    names = set(nm for s_ in shapes_in for nm in space.names_of(s_))
    for route, sig in (('sigtools.signature', ssig), ('inspect.signature', isig)):
        rshape = shape_of(sig)
        if any(p[0] not in alpha.idx for p in rshape):
            st.violation('reported-signature-unsound', case, dict(base, object=tag, route=route, reported=str(sig),
                                                                 problem='parameter from nowhere'), {'route': route})
            return ssig
        bits = alpha.acc(rshape) & alpha.noncolliding(rshape, shapes_in) & ~alpha.excluded(rshape)
        for s_ in shapes_in:
            bits &= ~alpha.excluded(s_)
        n = 0
        self_seen = False
        for npos, K in alpha.iter_bits(bits):
            if npos > 4 or len(K) > 4 or (self_seen and 'self' in K):
                continue
            n += 1
            a = tuple(('p', i) for i in range(npos))
            k = dict((nm, ('k', nm)) for nm in K)
            r = callsem.run_call(g, a, k)
            if r[0] == 'TypeError':
                feat = {'route': route, 'object': tag.split(':')[0]}
                if 'self' in K and "__call__() got multiple values for argument 'self'" in r[1]:
                    feat = {'cause': 'keyword-named-self'}
                names_ = [nm for s_ in shapes_in for nm in space.names_of(s_) if nm not in ('args', 'kwargs')]
                if base.get('api') == 'decorator' and len(set(names_)) != len(names_) and str(sig).startswith('(*args'):
                    # wrappers.decorator relies on discovery; where that gives up (here: decorator and decorated function
                    # share a parameter name) the loose signature of the partial object is what is left
                    feat = {'cause': 'decorator-falls-back-to-loose-signature-on-name-collision'}
                st.violation('reported-signature-unsound', case,
                             dict(base, object=tag, route=route, reported=str(sig), call={'positionals': npos, 'keywords': K},
                                  error=r[1][:200]), feat)
                if feat.get('cause'):
                    self_seen = True
                    continue
                break
        st.inc('evaluations', n)
    # transparency on the whole (bounded) call alphabet
    kwn = sorted(names - {'self', 'func'}) + ['zz']
    kwn = [x for x in kwn if x not in ('args', 'kwargs')] + [x for x in ('kwargs',) if x in names]
    maxn = max(len(space.positionals(s_)) for s_ in shapes_in) + 1
    n = 0
    for a, k in callsem.call_list(kwn[:6], min(maxn + len(shapes_in) - 1, 4)):
        n += 1
        w, got = callsem.run_call(comp, a, k), callsem.run_call(g, a, k)
        if not outcome_eq(w, got):
            st.violation('not-call-transparent', case,
                         dict(base, object=tag, call=callsem.describe_call(a, k), composition=repr(w)[:300], wrapped=repr(got)[:300]),
                         {'object': tag.split(':')[0]})
            break
    st.inc('evaluations', n)
    return ssig


def CLASSIC(f):
    import functools

    @functools.wraps(f)
    def classic_wrapper(*args, **kwargs):
        return f(*args, **kwargs)
    return classic_wrapper


def build(api, D, f):
    if api == 'decorator':
        return W.decorator(D)(f)
    if api == 'wrapper_decorator':
        return W.wrapper_decorator(D)(f)
    raise AssertionError(api)


def compose(Ds, f):
    """Hand-written composition, outermost decorator first."""
    inner = f
    for D in reversed(Ds):
        inner = (lambda D_, g_: (lambda *a, **k: D_(g_, *a, **k)))(D, inner)
    return inner


def eval_stack(ns, api, kinds, fshape, placement, st):
    # a kind written 'none@1' names decorator function 1 whatever its position: the same wrapping function may
    # occur several times in one stack
    kinds_all = kinds
    # 'classic' at position i sits on top of the next sigtools layer below it
    classic_at = [i - sum(1 for k in kinds[:i] if k == 'classic') for i, k in enumerate(kinds) if k == 'classic']
    kinds = tuple(k for k in kinds if k != 'classic')
    idxs = [int(k.partition('@')[2] or i + 1) for i, k in enumerate(kinds)]
    kinds_ = [k.partition('@')[0] for k in kinds]
    Ds = [ns['D%d_%s' % (i, k)] for i, k in zip(idxs, kinds_)]
    sigattr = placement.endswith('_sig')
    placement = placement[:-4] if sigattr else placement
    method = placement == 'method'
    f = make_f(fshape, method)
    if sigattr:
        # the decorated function carries an explicit __signature__ of its own (as modifiers.annotate leaves one)
        from sigtools import signatures as S_
        f.__signature__ = S_.signature(f)
    case = {'api': api, 'kinds': list(kinds_all), 'f': space.to_json(fshape), 'placement': placement + ('_sig' if sigattr else '')}
    base = {'api': api, 'decorators': [D.__name__ + str(inspect.signature(D)) for D in Ds],
            'decorated': 'def f' + str(inspect.signature(f)) + (' with f.__signature__ set' if sigattr else ''), 'placement': placement}
    st.inc('states')
    try:
        g = f
        for j, D in reversed(list(enumerate(Ds))):
            g = build(('decorator', 'wrapper_decorator')[j % 2] if api == 'mixed' else api, D, g)
            if j in classic_at:
                # a decorator written the classic way (functools.wraps + pass-through) on top of this layer: it changes
                # neither the calls nor the list of sigtools wrapping functions
                g = CLASSIC(g)
    except Exception as e:  # noqa
        st.violation('decoration-raises', case, dict(base, error='%s: %s' % (type(e).__name__, e)), {})
        return
    dshapes = [deco_shape(i, k) for i, k in zip(idxs, kinds_)]
    if placement == 'function':
        check_object(g, compose(Ds, f), dshapes + [fshape], Ds, st, case, base, 'function')
        st.seen('result', (api, kinds, fshape, placement))
        return
    if placement == 'staticmethod':
        holder = type('H', (object,), {'m': staticmethod(g)})
        check_object(holder.m, compose(Ds, f), dshapes + [fshape], Ds, st, case, base, 'staticmethod:class')
        check_object(holder().m, compose(Ds, f), dshapes + [fshape], Ds, st, case, base, 'staticmethod:instance')
        return
    # instances compare equal by value; one was used before the one the checks run on
    holder = type('H', (object,), {'m': g, 'plain': f, '__eq__': lambda self, other: type(other) is type(self),
                                   '__hash__': lambda self: 11})
    earlier = holder()
    try:
        earlier.m
    except Exception:  # noqa: judged on the instance below
        pass
    inst = holder()
    comp_bound = compose(Ds, inst.plain)
    bsig = check_object(inst.m, comp_bound, dshapes + [fshape], Ds, st, case, base, 'method:bound')
    # through the class: the first parameter (self) is still there
    full = self_param(fshape) + fshape
    usig = check_object(holder.m, compose(Ds, f), dshapes + [full], Ds, st, case, base, 'method:class')
    own_names = [nm for s_ in dshapes for nm in space.names_of(s_) if nm not in ('args', 'kwargs')]
    collides = any(nm in space.names_of(fshape) for nm in own_names)
    if bsig is not None and usig is not None and not collides:
        up = list(usig.parameters.values())
        bp = list(bsig.parameters.values())
        # binding removes exactly the first parameter of the decorated function
        # (defaults of decorator parameters in front of self are legitimately cleared in the class-level form)
        want = [(p.name, p.kind) for p in up if p.name != 'self']
        if 'self' not in usig.parameters or [(p.name, p.kind) for p in bp] != want:
            st.violation('binding-does-not-remove-exactly-the-first-parameter', case,
                         dict(base, through_class=str(usig), bound=str(bsig)), {})


def eval_forwarding(ns, which, fshape, placement, st):
    """wrapper_decorator given (n, names) matching the written call."""
    D = ns['DF_pos' if which == 'pos' else 'DF_kw']
    method = placement == 'method'
    f = make_f(fshape, method)
    case = {'api': 'wrapper_decorator+args', 'which': which, 'f': space.to_json(fshape), 'placement': placement}
    base = {'api': 'wrapper_decorator(%s)' % ("1" if which == 'pos' else "0, 'y'"), 'decorator': D.__name__,
            'decorated': 'def f' + str(inspect.signature(f)), 'placement': placement}
    st.inc('states')
    deco = W.wrapper_decorator(1)(D) if which == 'pos' else W.wrapper_decorator(0, 'y')(D)
    g = deco(f)
    dshape = (('args', VA, False), ('kwargs', VK, False))
    # the written call consumes a parameter of f: the inputs as the caller sees them
    if placement == 'function':
        check_object(g, compose([D], f), [dshape, fshape], [D], st, case, base, 'function')
    else:
        holder = type('H', (object,), {'m': g, 'plain': f})
        inst = holder()
        check_object(inst.m, compose([D], inst.plain), [dshape, fshape], [D], st, case, base, 'method:bound')


def eval_forwarding_decorated(ns, api, kind, which, placement, st):
    """The decorated function itself forwards its stars (discovered or declared): its effective signature is only
    known to sigtools."""
    D = ns['D1_' + kind]
    f = ns[which]
    eff = (('a', POK, False), ('x', POK, False), ('y', POK, True), ('z', KWO, True))
    case = {'api': api + '+forwarding', 'kinds': [kind], 'which': which, 'placement': placement}
    base = {'api': api, 'decorators': [D.__name__ + str(inspect.signature(D))],
            'decorated': '%s%s forwarding to FWD_target(x, y=, *, z=)' % (which, inspect.signature(f, follow_wrapped=False)),
            'placement': placement}
    st.inc('states')
    g = build(api, D, f)
    comp = compose([D], f)
    dshape = deco_shape(1, kind)
    if placement == 'function':
        check_object(g, comp, [dshape, eff], [D], st, case, base, 'function', 'fwd')
    else:
        holder = type('H', (object,), {'m': staticmethod(g)})
        check_object(holder().m, comp, [dshape, eff], [D], st, case, base, 'staticmethod:instance', 'fwd')


def eval_exceptions(ns, st):
    """Exceptions of the decorated function and of the decorator come through unchanged."""
    for api in ('decorator', 'wrapper_decorator'):
        for Dn, fn in (('D1_none', 'F_raise'), ('D1_pok', 'F_raise'), ('D_raise', 'CF_vx'), ('D_raise', 'F_raise')):
            D, f = ns[Dn], ns[fn]
            st.inc('states')
            g = build(api, D, f)
            comp = compose([D], f)
            case = {'api': api + '+exceptions', 'D': Dn, 'f': fn}
            for a, k in callsem.call_list(('x', 'y', 'd1'), 3):
                w, got = callsem.run_call(comp, a, k), callsem.run_call(g, a, k)
                st.inc('evaluations')
                if not outcome_eq(w, got) or (w[0] == 'raise' and w[2] != got[2]):
                    st.violation('not-call-transparent', case,
                                 {'api': api, 'decorator': Dn, 'decorated': fn, 'call': callsem.describe_call(a, k),
                                  'composition': repr(w)[:200], 'wrapped': repr(got)[:200]}, {'object': 'exceptions'})
                    break
    for combo in (('CF_vx', 'F_raise'), ('F_raise',)):
        comb = W.Combination(*[ns[n_] for n_ in combo])
        st.inc('states')
        r = callsem.run_call(comb, (1, 2), {})
        st.inc('evaluations')
        if r[0] != 'raise' or r[1] != 'Boom':
            st.violation('not-call-transparent', {'api': 'Combination+exceptions', 'functions': list(combo)},
                         {'api': 'Combination', 'functions': list(combo), 'outcome': repr(r)[:200], 'expected': 'Boom propagates'},
                         {'object': 'exceptions'})


def eval_combination(ns, fam, combo, st):
    funcs = [ns['CF_' + nm] for nm in combo]
    case = {'api': 'Combination', 'functions': list(combo)}
    base = {'api': 'Combination', 'functions': [f.__name__ + str(inspect.signature(f)) for f in funcs]}
    st.inc('states')
    comb = W.Combination(*funcs)
    if len(combo) == 3:
        comb = W.Combination(W.Combination(funcs[0], funcs[1]), funcs[2])       # nesting flattens

    def chain(arg, *a, **k):
        for f in funcs:
            arg = f(arg, *a, **k)
        return arg
    shapes = [(('arg', POK, False), ('args', VA, False), ('kwargs', VK, False))] + [shape_of(inspect.signature(f)) for f in funcs]
    try:
        ssig = sigtools.signature(comb)
    except ValueError:
        ssig = None         # IncompatibleSignatures: no call works for all -- checked below by transparency only
    except Exception as e:  # noqa
        st.violation('signature-retrieval-raises', case, dict(base, error='%s: %s' % (type(e).__name__, e)), {'object': 'Combination'})
        return
    st.inc('transitions')
    alpha = alphabet('comb')
    if ssig is not None:
        rshape = shape_of(ssig)
        st.seen('result', ('Combination', combo, rshape))
        bits = alpha.acc(rshape) & alpha.noncolliding(rshape, shapes) & ~alpha.excluded(rshape)
        n = 0
        for npos, K in alpha.iter_bits(bits):
            if npos > 4:
                continue
            n += 1
            a = tuple(('p', i) for i in range(npos))
            k = dict((nm, ('k', nm)) for nm in K)
            r = callsem.run_call(comb, a, k)
            if r[0] == 'TypeError':
                st.violation('reported-signature-unsound', case,
                             dict(base, reported=str(ssig), call={'positionals': npos, 'keywords': K}, error=r[1][:200]),
                             {'object': 'Combination'})
                break
        st.inc('evaluations', n)
    n = 0
    for a, k in callsem.call_list(('v', 'x', 'y', 'z', 'zz'), 4):
        n += 1
        w, got = callsem.run_call(chain, a, k), callsem.run_call(comb, a, k)
        if not outcome_eq(w, got):
            st.violation('not-call-transparent', case, dict(base, call=callsem.describe_call(a, k), composition=repr(w)[:300],
                                                            wrapped=repr(got)[:300]), {'object': 'Combination'})
            break
    st.inc('evaluations', n)


def work_items(tier):
    fs = decorated_functions(tier)
    items = []
    for api in ('decorator', 'wrapper_decorator'):
        for kind in OWN:
            for placement in ('function', 'method', 'staticmethod', 'function_sig', 'method_sig'):
                for i in range(0, len(fs), 40):
                    items.append(('stack', api, (kind,), placement, i, min(len(fs), i + 40)))
    reps = [s for s in fs if len(s) <= 2][:12] if tier == 'quick' else [s for s in fs if len(s) <= 3][:40]
    for api in ('decorator', 'wrapper_decorator'):
        for kinds in itertools.product(OWN, repeat=2):
            items.append(('stackreps', api, kinds, 'function', 0, 0))
            items.append(('stackreps', api, kinds, 'method', 0, 0))
    deep = OWN if tier == 'thorough' else ('none', 'pok', 'kwoopt', 'po')
    for api in ('decorator', 'wrapper_decorator'):
        for kinds in itertools.product(deep, repeat=3):
            items.append(('stackreps3', api, kinds, 'function', 0, 0))
    # the same wrapping function more than once in a stack
    for api in ('decorator', 'wrapper_decorator', 'mixed'):
        for r in (2, 3):
            for seq in itertools.product((1, 2), repeat=r):
                if len(set(seq)) < r:
                    for placement in ('function', 'method', 'staticmethod'):
                        items.append(('stackreps3', api, tuple('none@%d' % i for i in seq), placement, 0, 0))
    # the decorated function has a keyword-only parameter named like the decorator's own
    items.append(('collide', None, None, None, 0, 0))
    # a classic functools.wraps decorator between two sigtools wrappers
    for api in ('decorator', 'wrapper_decorator'):
        for placement in ('function', 'method'):
            items.append(('stackreps3', api, ('none@1', 'classic', 'none@2'), placement, 0, 0))
            items.append(('stackreps3', api, ('pok@1', 'classic', 'kwoopt@2'), placement, 0, 0))
    items.append(('forwarding', None, None, None, 0, 0))
    items.append(('fwd_decorated', None, None, None, 0, 0))
    items.append(('exceptions', None, None, None, 0, 0))
    items.append(('combination', None, None, None, 0, 0))
    return items


def shard(tier, sh):
    i0, i1 = sh
    st = runner.Stats()
    src, fam = deco_src()
    batch = progs.Batch(prelude='')
    batch.add(src, 40)
    batch.load()
    ns = batch.index
    fs = decorated_functions(tier)
    reps = [s for s in fs if 1 <= len(s) <= 2][:12] if tier == 'quick' else [s for s in fs if len(s) <= 3][:40]
    reps3 = reps[:4]
    try:
        for item in work_items(tier)[i0:i1]:
            kind = item[0]
            if kind == 'stack':
                _, api, kinds, placement, a, b = item
                for fshape in fs[a:b]:
                    eval_stack(ns, api, kinds, fshape, placement, st)
            elif kind == 'stackreps':
                _, api, kinds, placement, _, _ = item
                for fshape in reps:
                    eval_stack(ns, api, kinds, fshape, placement, st)
            elif kind == 'stackreps3':
                _, api, kinds, placement, _, _ = item
                for fshape in reps3:
                    eval_stack(ns, api, kinds, fshape, placement, st)
            elif kind == 'collide':
                from vf.space import KWO as _KWO, POK as _POK
                for api in ('decorator', 'wrapper_decorator'):
                    for dk in ('kwo', 'kwoopt', 'pok'):
                        for opt in (False, True):
                            for fshape in ((('x', _POK, False), ('d1', _KWO, opt)), (('d1', _KWO, opt),),
                                           (('x', _POK, False), ('d1', _POK, opt))):
                                for placement in ('function', 'method'):
                                    eval_stack(ns, api, (dk,), fshape, placement, st)
            elif kind == 'forwarding':
                for fshape in fs:
                    pos = space.positionals(fshape)
                    if pos:
                        for placement in ('function', 'method'):
                            eval_forwarding(ns, 'pos', fshape, placement, st)
                    if 'y' in space.kwpass(fshape):
                        for placement in ('function', 'method'):
                            eval_forwarding(ns, 'kw', fshape, placement, st)
            elif kind == 'exceptions':
                eval_exceptions(ns, st)
            elif kind == 'fwd_decorated':
                for api in ('decorator', 'wrapper_decorator'):
                    for k in OWN:
                        for which in ('F_fwd', 'F_declared'):
                            for placement in ('function', 'staticmethod'):
                                eval_forwarding_decorated(ns, api, k, which, placement, st)
            elif kind == 'combination':
                for r in (1, 2, 3):
                    for combo in itertools.product(fam, repeat=r):
                        eval_combination(ns, fam, combo, st)
        st.sample({'work_item': [str(x) for x in work_items(tier)[i0]]}, 1)
    finally:
        batch.close()
    for alpha in _ALPHA.values():
        st.inc('validated', alpha.validated)
        alpha.validated = 0
    return st


def run(tier, seed):
    n = len(work_items(tier))
    shards = [(i, i + 1) for i in range(n)]
    st = runner.run_shards(__name__, 'shard', tier, shards, seed)
    coverage = {
        'exhaustive': True,
        'states': st.c.get('states', 0),
        'transitions': st.c.get('evaluations', 0),
        'traces_validated_against_impl': st.c.get('evaluations', 0) + st.c.get('validated', 0),
        'evaluations': st.c.get('evaluations', 0),
        'distinct_nontrivial': len(st.distinct.get('result', ())),
        'rule': 'states = wrapped callables really built: {wrappers.decorator, wrappers.wrapper_decorator} x 6 kinds of own '
                'decorator parameter x decorated functions x {function, method (bound and through the class), staticmethod}; '
                'stacks of depth 2 (all 36 kind pairs) and 3 on representative functions; wrapper_decorator(1) / (0, \'y\') with '
                'a matching written call; Combination of 1-3 functions of an 11-member role-consistent family; transitions = '
                'calls executed: every non-colliding call the reported signature (sigtools and inspect) accepts must run, and '
                'every call of the alphabet must give the result / exception type of the hand-written composition',
        'bound': 'decorated functions <=2 named parameters over {x,y} (quick: name-sorted); calls <=4 positionals, keyword subsets of the names in play + zz',
    }
    assumptions = [
        'generated bodies raise TypeError only through argument binding',
        'Combination soundness is claimed for the role-consistent family only, as the property says',
    ]
    return st, coverage, assumptions


def replay(art):
    c = art['case']
    st = runner.Stats()
    src, fam = deco_src()
    batch = progs.Batch(prelude='')
    batch.add(src, 40)
    batch.load()
    try:
        ns = batch.index
        if c['api'] == 'Combination':
            eval_combination(ns, fam, tuple(c['functions']), st)
        elif c['api'].endswith('+exceptions'):
            eval_exceptions(ns, st)
        elif c['api'].endswith('+forwarding'):
            eval_forwarding_decorated(ns, c['api'][:-len('+forwarding')], c['kinds'][0], c['which'], c['placement'], st)
        elif c['api'] == 'wrapper_decorator+args':
            eval_forwarding(ns, c['which'], space.from_json(c['f']), c['placement'], st)
        else:
            eval_stack(ns, c['api'], tuple(c['kinds']), space.from_json(c['f']), c['placement'], st)
    finally:
        batch.close()
    return runner.fresh_details('C13', st) or None
