"""C16 -- retrieval and algebra do not modify what they inspect, even when they fail.

Algebra (engine E2): deep snapshot of every input around every transition of
the BFS; results must not share provenance maps / lists / depth maps with the
inputs.  Retrieval (engine E4, vf/faults.py): for each scenario, an exception
of a menu is injected at every successive crossing from sigtools code into
outside code; after the call returns or raises, every object reachable through
__wrapped__, __signature__ and __dict__ has exactly the attributes it had, and
the recursion guard of as_forged is empty."""
import functools
import gc
import inspect
import types

import sigtools
from sigtools import signatures as S, specifiers

from vf import space, alg, runner, terms, progs, faults

PROP = 'C16'
NEEDS_SNAPSHOTS = True
SHARE_OPS = ('merge', 'embed', 'forwards', 'mask', 'roundtrip')


# ---------------------------------------------------------------------------
# algebra

def shared_containers(res, inputs):
    """Provenance containers of the result that are the very objects of an input."""
    out = []
    rs = res.sources
    for i, s in enumerate(inputs):
        ss = s.sources
        if rs is ss:
            out.append('sources map is input %d\'s' % i)
        if rs.get('+depths') is not None and rs.get('+depths') is ss.get('+depths'):
            out.append("'+depths' map is input %d's" % i)
        for k, v in rs.items():
            if k != '+depths' and isinstance(v, list):
                for k2, v2 in ss.items():
                    if v is v2:
                        out.append('list of %r is input %d\'s list of %r' % (k, i, k2))
    return out


def trans_check(tr, st):
    case = {'op': 'algebra-term', 'term': tr.term}
    post = [terms.snapshot(s) for s in tr.inputs]
    if post != tr.pre:
        st.violation('input-modified', case, {'term': terms.show_term(tr.term), 'inputs': [alg.sig_str(s) for s in tr.inputs]},
                     {'op': tr.op})
    if tr.status != 'ok' or tr.op not in SHARE_OPS or alg.well_formed(tr.result):
        return
    sh = shared_containers(tr.result, tr.inputs)
    if sh:
        st.violation('result-shares-provenance-with-input', case,
                     {'term': terms.show_term(tr.term), 'shared': sh[:4]}, {'op': tr.op})


def state_check(sig, term, st):
    """Unary forms not in the transition menu: merge(s), embed(s), sort_params, apply_params."""
    case = {'op': 'algebra-term', 'term': term, 'unary': True}
    pre = terms.snapshot(sig)
    results = []
    for name, fn in (('merge(s)', lambda: S.merge(sig)), ('embed(s)', lambda: S.embed(sig)),
                     ('mask(s)', lambda: S.mask(sig)),
                     ('apply_params(s, *sort_params(s))', lambda: S.apply_params(sig, *S.sort_params(sig))),
                     ('apply_params(s, *sort_params(s, sources=True))', lambda: S.apply_params(sig, *S.sort_params(sig, sources=True)))):
        status, res = alg.outcome(fn)
        st.inc('unary_ops')
        if status == 'ok':
            sh = shared_containers(res, [sig])
            if sh:
                st.violation('result-shares-provenance-with-input', case,
                             {'term': terms.show_term(term), 'operation': name, 'shared': sh[:4]}, {'op': name.split('(')[0]})
    sp = S.sort_params(sig, sources=True)
    if sp.sources is sig.sources or sp.sources.get('+depths') is sig.sources.get('+depths') or any(
            v is sig.sources.get(k) for k, v in sp.sources.items()):
        st.violation('result-shares-provenance-with-input', case,
                     {'term': terms.show_term(term), 'operation': 'sort_params(s, sources=True)'}, {'op': 'sort_params'})
    # a later in-place edit of a result must not reach the input
    if terms.snapshot(sig) != pre:
        st.violation('input-modified', case, {'term': terms.show_term(term), 'operation': 'unary forms'}, {'op': 'unary'})


# ---------------------------------------------------------------------------
# retrieval scenarios (real file: discovery needs source)

SCENARIO_SRC = '''
import functools
from sigtools import specifiers, modifiers, wrappers, support


def inner(x, y=2, *, z=3):
    return x


def make_wraps1():
    @functools.wraps(inner)
    def w(*args, **kwargs):
        return inner(*args, **kwargs)
    return w, [w, inner]


def make_wraps2():
    @functools.wraps(inner)
    def w1(a, *args, **kwargs):
        return inner(*args, **kwargs)

    @functools.wraps(w1)
    def w2(b, *args, **kwargs):
        return w1(*args, **kwargs)
    return w2, [w2, w1, inner]


def make_own_signature():
    def f(a, *args, **kwargs):
        return inner(*args, **kwargs)
    f.__signature__ = support.s('q, r=1')
    return f, [f]


def make_own_signature_and_wrapped():
    @functools.wraps(inner)
    def f(a, *args, **kwargs):
        return inner(*args, **kwargs)
    f.__signature__ = support.s('q, r=1')
    f.extra = 1
    return f, [f, inner]


class AsForgedClass(object):
    __signature__ = specifiers.as_forged

    def __init__(self, a, *args, **kwargs):
        self.a = a

    @specifiers.forwards_to_method('method')
    def __call__(self, x, *args, **kwargs):
        return self.method(*args, **kwargs)

    def method(self, a, b, c=1):
        return a


def make_as_forged_class():
    cls = type('AsForgedClassCopy', (AsForgedClass,), {'__signature__': specifiers.as_forged})
    return cls, [cls, AsForgedClass]


def make_as_forged_instance():
    cls = type('AsForgedClassCopy', (AsForgedClass,), {'__signature__': specifiers.as_forged})
    inst = cls(1)
    return inst, [inst, cls, AsForgedClass]


class SigProperty(object):
    def __call__(self, a, b):
        return a

    @property
    def __signature__(self):
        return support.s('z')


def make_signature_property():
    inst = SigProperty()
    return inst, [inst, SigProperty]


def make_forwards_to_function():
    @specifiers.forwards_to_function(inner)
    def w(a, *args, **kwargs):
        return inner(*args, **kwargs)
    return w, [w, inner]


def make_forwards_emulate():
    @specifiers.forwards_to_function(inner, emulate=True)
    def w(a, *args, **kwargs):
        return inner(*args, **kwargs)
    return w, [w, inner]


@specifiers.forger_function
def raising_forger(obj):
    raise ValueError('forger refuses')


def make_forger_raises():
    @raising_forger()
    def w(a, *args, **kwargs):
        return inner(*args, **kwargs)
    return w, [w]


def make_kwoargs_function():
    @modifiers.kwoargs('b')
    def f(a, b=1, *args, **kwargs):
        return inner(*args, **kwargs)
    return f, [f]


class KwoHolder(object):
    @modifiers.kwoargs('b')
    def m(self, a, b=1, *args, **kwargs):
        return inner(*args, **kwargs)


def make_kwoargs_method():
    cls = type('KwoHolderCopy', (KwoHolder,), {'m': modifiers.kwoargs('b')(KwoHolder.__dict__['m'].func)})
    inst = cls()
    return inst.m, [inst, cls, cls.__dict__['m']]


def deco(func, d, *args, **kwargs):
    return func(*args, **kwargs)


def make_wrappers_decorator():
    g = wrappers.decorator(deco)(inner)
    return g, [g, inner]


def make_partial_of_wraps():
    w, roots = make_wraps1()
    p = functools.partial(w, 1)
    return p, [p] + roots


def make_handbuilt_upgraded_signature():
    from sigtools import signatures
    import inspect

    def f(a, b=1):
        return a
    P = signatures.UpgradedParameter
    f.__signature__ = signatures.UpgradedSignature([P('q', inspect.Parameter.POSITIONAL_OR_KEYWORD)])
    return f, [f]


class HandbuiltCallable(object):
    def __call__(self, a, b):
        return a


def make_handbuilt_on_instance():
    from sigtools import signatures
    import inspect
    inst = HandbuiltCallable()
    shared = signatures.UpgradedSignature([signatures.UpgradedParameter('z', inspect.Parameter.KEYWORD_ONLY)])
    inst.__signature__ = shared
    other = HandbuiltCallable()
    other.__signature__ = shared
    return inst, [inst, other]


@specifiers.forger_function
def raising_forger_emulated(obj):
    raise ValueError('forger refuses')


def make_forger_raises_emulate():
    @raising_forger_emulated(emulate=True)
    def w(a, *args, **kwargs):
        return inner(*args, **kwargs)
    return w, [w]


class RaisingForgedClass(object):
    __signature__ = specifiers.as_forged

    @specifiers.forwards_to_method('missing_attribute')
    def __call__(self, x, *args, **kwargs):
        return x


def make_as_forged_forger_fails():
    cls = type('RaisingForgedCopy', (RaisingForgedClass,), {'__signature__': specifiers.as_forged})
    inst = cls()
    return inst, [inst, cls]


def make_annotate_then_kwoargs():
    def f(a, b=1, *args, **kwargs):
        return inner(*args, **kwargs)
    g = modifiers.kwoargs('b')(modifiers.annotate(a=int)(f))
    return g, [g, f]


class CallEmulated(object):
    def method(self, p, q=1):
        return p

    @specifiers.forwards_to_method('method', emulate=True)
    def __call__(self, x, *args, **kwargs):
        return self.method(*args, **kwargs)


def make_class_call_emulate():
    # retrieval through the class reads cls.__call__: the first access to an emulate=True forger wrapper
    ns = dict(CallEmulated.__dict__)
    ns.pop('__dict__', None)
    ns.pop('__weakref__', None)
    ns['__call__'] = specifiers.forwards_to_method('method', emulate=True)(CallEmulated.__dict__['__call__'].__wrapped__)
    cls = type('CallEmulatedCopy', (object,), ns)
    return cls, [cls, cls.__dict__['__call__']]


def make_partial_of_modified():
    # a partial object over a modifiers-wrapped function that forwards nothing: plain retrieval masks the stored signature
    @modifiers.kwoargs('flag')
    def target(a, b, flag=False, **options):
        return a
    p = functools.partial(target, 1, extra=2)
    return p, [p, target, target.__signature__]


def make_forwarder_to_partial_of_annotated():
    @modifiers.annotate(a=int)
    def target(a, b, **options):
        return a

    def w(*args, **kwargs):
        return functools.partial(target, 1, extra=2)(*args, **kwargs)
    return w, [w, target, target.__signature__]


def make_wrapper_decorator_over_annotated():
    @modifiers.annotate(x=int)
    def target(x, y=2):
        return x
    g = wrappers.wrapper_decorator(deco)(target)
    return g, [g, target, target.__signature__]


def make_wrapper_decorator_over_kwoargs():
    @modifiers.kwoargs('y')
    def target(x, y=2):
        return x
    g = wrappers.wrapper_decorator(deco)(target)
    return g, [g, target, target.__signature__]


def make_annotate_then_kwoargs_nosource():
    # the same, on a function whose source cannot be retrieved (built by exec): the discovery hint has nothing to say
    ns = {}
    exec("def f(a, b=1, *args, **kwargs):\\n    return a\\n", ns)
    f = ns['f']
    g = modifiers.kwoargs('b')(modifiers.annotate(a=int)(f))
    return g, [g, f]
'''

SCENARIOS = ('wraps1', 'wraps2', 'own_signature', 'own_signature_and_wrapped', 'as_forged_class', 'as_forged_instance',
             'signature_property', 'forwards_to_function', 'forwards_emulate', 'forger_raises', 'kwoargs_function',
             'kwoargs_method', 'wrappers_decorator', 'partial_of_wraps', 'annotate_then_kwoargs',
             'handbuilt_upgraded_signature', 'handbuilt_on_instance', 'forger_raises_emulate', 'as_forged_forger_fails',
             'annotate_then_kwoargs_nosource', 'class_call_emulate', 'partial_of_modified', 'forwarder_to_partial_of_annotated',
             'wrapper_decorator_over_annotated', 'wrapper_decorator_over_kwoargs')
RETRIEVERS = (('sigtools.signature', lambda o: sigtools.signature(o)),
              ('inspect.signature', lambda o: inspect.signature(o)))


def raw_dict(obj):
    try:
        if isinstance(obj, type):
            return dict(vars(obj))
        return dict(object.__getattribute__(obj, '__dict__'))
    except (AttributeError, TypeError):
        return None


def reach(roots):
    """id -> (object, {attribute: id(value)}) for everything reachable from the roots through instance / class
    dictionaries (functions, classes and instances defined by the scenario, partials, sigtools wrapper objects)."""
    out = {}
    todo = list(roots)
    while todo:
        o = todo.pop()
        if id(o) in out or isinstance(o, (types.ModuleType, str, int, float, tuple, frozenset)) or o is None:
            continue
        d = raw_dict(o)
        slots = {}
        for cls in type(o).__mro__ if not isinstance(o, type) else ():
            for sl in getattr(cls, '__slots__', ()) or ():
                if isinstance(sl, str) and sl not in ('__dict__', '__weakref__'):
                    try:
                        slots['slot:' + sl] = object.__getattribute__(o, sl)
                    except AttributeError:
                        pass
        if d is None and not slots:
            out[id(o)] = (o, None)
            continue
        allv = dict(d or {})
        allv.update(slots)
        attrs = dict((k, id(v)) for k, v in allv.items())
        # a signature object's provenance is part of it: the map's entries, lists and depths by content
        src = allv.get('slot:sources')
        if isinstance(src, dict):
            attrs['slot:sources (content)'] = tuple(sorted(
                (str(k), tuple(sorted((id(f), d_) for f, d_ in v.items())) if isinstance(v, dict) else tuple(id(f) for f in v))
                for k, v in src.items()))
        out[id(o)] = (o, attrs)
        for k, v in allv.items():
            if k in ('__wrapped__', '__signature__', 'func', 'wrapper', '__func__', '__self__', '_signature_forger',
                     'slot:func', 'slot:__self__', 'slot:__signature__') or isinstance(v, (types.FunctionType, functools.partial)):
                if not isinstance(v, (types.ModuleType, str, int)) and getattr(v, '__module__', '') not in ('builtins',):
                    todo.append(v)
        if not isinstance(o, type) and getattr(type(o), '__module__', '').startswith('vfp_'):
            todo.append(type(o))
    return out


def diff_reach(before, after):
    probs = []
    for oid, (o, attrs) in before.items():
        if oid not in after:
            probs.append('%s no longer reachable' % type(o).__name__)
            continue
        a2 = after[oid][1]
        if attrs is None or a2 is None:
            continue
        for k in attrs:
            if k not in a2:
                probs.append('%s lost attribute %s' % (describe(o), k))
            elif a2[k] != attrs[k] and k not in ('__weakref__',):
                probs.append('%s attribute %s now is another object' % (describe(o), k))
        for k in a2:
            if k not in attrs:
                probs.append('%s gained attribute %s' % (describe(o), k))
    return probs


def describe(o):
    return '%s %s' % (type(o).__name__, getattr(o, '__name__', ''))


def run_scenario_case(mod, scen, retriever, k, exc_type, expect, st):
    """One execution on fresh objects; returns the crossing labels (recording) or whether the fault fired."""
    target, roots = getattr(mod, 'make_' + scen)()
    rname, rfn = retriever
    before = reach(roots)
    keep = [v[0] for v in before.values()]
    if k is None:
        points, res = faults.record(lambda: rfn(target))
        fired = None
    else:
        fired, res = faults.run_with_fault(lambda: rfn(target), k, exc_type, expect)
        points = None
    after = reach(roots)
    probs = diff_reach(before, after)
    guard = specifiers.as_forged.currently_computing
    if guard:
        probs.append('as_forged recursion guard not empty: %d object(s)' % len(guard))
        guard.clear()
    st.inc('transitions')
    if probs:
        feat = {'scenario': scen, 'fault': k is not None}
        if all(p_.startswith('_ForgerWrapper ') and (p_.endswith('attribute _transformed now is another object')
                                                      or p_.endswith('attribute __wrapped__ now is another object')) for p_ in probs):
            # the one-time transformation an emulate=True wrapper applies to itself the first time it is read through a class
            feat = {'cause': 'forger-wrapper-transforms-itself-on-first-access'}
        st.violation('object-modified-by-retrieval',
                     {'op': 'retrieval', 'scenario': scen, 'retriever': rname, 'crossing': k,
                      'exception': exc_type.__name__ if exc_type else None},
                     {'scenario': scen, 'retriever': rname, 'fault': None if k is None else
                      {'crossing': k, 'at': expect, 'exception': exc_type.__name__}, 'outcome': repr(res)[:200], 'problems': probs[:6]},
                     feat)
    del keep
    return points, fired


_MOD = {}


def scenario_module():
    if 'm' not in _MOD:
        batch = progs.Batch(prelude='')
        batch.add(SCENARIO_SRC, 60)
        batch.load()
        _MOD['m'] = batch.modules[0]
        _MOD['batch'] = batch
    return _MOD['m']


def fault_shard(tier, sh):
    scen, rname = sh
    st = runner.Stats()
    mod = scenario_module()
    retriever = [r for r in RETRIEVERS if r[0] == rname][0]
    try:
        # warm caches (linecache, inspect), then record twice: the crossing sequence must be stable
        run_scenario_case(mod, scen, retriever, None, None, None, runner.Stats())
        p1, _ = run_scenario_case(mod, scen, retriever, None, None, None, st)
        p2, _ = run_scenario_case(mod, scen, retriever, None, None, None, runner.Stats())
        if p1 != p2:
            raise runner.HarnessError('scenario %s/%s: crossing sequence not reproducible' % (scen, rname))
        st.inc('states')
        st.inc('crossings', len(p1))
        st.seen('crossing', (scen, rname, tuple(sorted(set(p1)))))
        menu = faults.EXC_MENU
        for k, label in enumerate(p1):
            for exc_type in menu:
                st.inc('states')
                _, fired = run_scenario_case(mod, scen, retriever, k, exc_type, label, st)
                if not fired:
                    raise runner.HarnessError('scenario %s/%s: fault at crossing %d (%s) never fired' % (scen, rname, k, label))
        st.sample({'scenario': scen, 'retriever': rname, 'crossings': len(p1), 'first_crossings': p1[:6]}, 1)
    finally:
        gc.collect()
    return st


def run(tier, seed):
    st, levels, cfg = terms.explore(__name__, tier, seed)
    shards = [(s, r[0]) for s in SCENARIOS for r in RETRIEVERS]
    st2 = runner.run_shards(__name__, 'fault_shard', tier, shards, seed)
    st.merge(st2)
    coverage = {
        'exhaustive': True,
        'states': st.c.get('states', 0) + st.c.get('states_final_level', 0),
        'transitions': st.c.get('transitions', 0),
        'traces_validated_against_impl': st.c.get('transitions', 0),
        'evaluations': st.c.get('transitions', 0),
        'distinct_nontrivial': st.c.get('states_final_level', 0) + len(st.distinct.get('crossing', ())),
        'fault_scenarios': len(shards),
        'crossings_total': st.c.get('crossings', 0),
        'exception_menu': [e.__name__ for e in faults.EXC_MENU],
        'levels': levels,
        'rule': 'algebra: every transition of the BFS over the real operations with a deep snapshot of the inputs before/after '
                '(parameters by identity, metadata, provenance maps and lists by identity and content) and an identity check '
                'that the result shares no provenance container (map, lists, depth map) with an input, plus the unary forms '
                'merge(s), embed(s), mask(s), sort_params(s, sources=True), apply_params(s, *sort_params(s)) in every state; '
                'retrieval: %d scenarios x {sigtools.signature, inspect.signature}: a fault-free run and one run per (crossing, '
                'exception type) on fresh objects, with the attributes (instance / class dictionaries and slots, by identity) of '
                'everything reachable compared before/after and the as_forged guard checked empty; every run executes the real '
                'code (traces_validated_against_impl = transitions)' % len(SCENARIOS),
        'bound': cfg.name + '; every crossing of every scenario x 7 exception types',
    }
    assumptions = [
        'fault model: an exception raised by a call that leaves sigtools code (Python-level callee outside /repo/sigtools, or builtin getattr/hasattr/compile); attribute setters and asynchronous exceptions are excluded',
        'descriptor caches (WeakKeyDictionary contents) are not attributes: their lifetime behaviour is C18\'s',
    ]
    return st, coverage, assumptions


def replay(art):
    c = art['case']
    st = runner.Stats()
    if c.get('op') == 'retrieval':
        mod = scenario_module()
        retriever = [r for r in RETRIEVERS if r[0] == c['retriever']][0]
        run_scenario_case(mod, c['scenario'], retriever, None, None, None, runner.Stats())
        if c['crossing'] is None:
            run_scenario_case(mod, c['scenario'], retriever, None, None, None, st)
        else:
            p1, _ = run_scenario_case(mod, c['scenario'], retriever, None, None, None, runner.Stats())
            exc = dict((e.__name__, e) for e in faults.EXC_MENU)[c['exception']]
            run_scenario_case(mod, c['scenario'], retriever, c['crossing'], exc, p1[c['crossing']], st)
    else:
        from vf.props import c08
        term = c08._fix_term((lambda t: (lambda f: f(f, t))(lambda f, x: tuple(f(f, i) for i in x) if isinstance(x, list) else x))(c['term']))
        if c.get('unary') or term[0] == 'seed':
            state_check(terms.build(term), term, st)
        else:
            tr = terms.Transition()
            tr.term, tr.op = term, term[0]
            tr.inputs = [terms.build(t) for t in terms.term_inputs(term)]
            tr.pre = [terms.snapshot(s) for s in tr.inputs]
            tr.status, tr.result = alg.outcome(terms.apply_op, term, tr.inputs)
            trans_check(tr, st)
    return [v['detail'] for v in st.viol] or None
