"""C11 -- postponed (PEP 563) annotations resolve in their defining context throughout.

Engine E1 over configurations: operation x signature pair x annotated subset x
compile mode (eager / ``from __future__ import annotations``) per function x
globals (shared / per-function with the same spelling ``T`` bound to different
classes).  Oracle: ``source_value()`` of every surviving annotation *is* the
object the spelling denotes in the defining function's globals, and every
configuration evaluates to the same result as its all-eager twin."""
import functools
import inspect
import itertools

import sigtools
from sigtools import signatures as S, modifiers as M

from vf import space, alg, runner, progs
from vf.space import PO, POK, VA, KWO, VK, show

PROP = 'C11'
E = inspect.Parameter.empty
PATTERNS = ('none', 'param', 'ret', 'both', 'stars')
MODES = ((False, False), (True, True), (False, True), (True, False))


class Obj(object):
    """Annotation object with a readable role label."""

    def __init__(self, label):
        self.label = label

    def __repr__(self):
        return '<%s>' % self.label


_FACADE = []
_KEEP = []          # signatures kept alive on purpose


TRUE = True


def facade_module():
    """An importable module that binds the spelling T to something else: functions re-exported under its name
    (f.__module__ = ...) must still resolve their annotations in their own globals."""
    import sys
    import types
    if not _FACADE:
        m = types.ModuleType('vfc11_facade')
        m.T = Obj('T@facade')
        sys.modules['vfc11_facade'] = m
        _FACADE.append(m)
    return _FACADE[0]


def make_fn(shape, pattern, future, T, name='f'):
    """A real function whose annotated parameters / return are spelled ``T`` in globals binding T to ``T``."""
    named = [p[0] for p in shape if p[1] in (PO, POK, KWO)]
    ann = {}
    if pattern in ('param', 'both') and named:
        ann = {named[0]: 'T'}
    if pattern == 'stars':
        ann = dict((p[0], 'T') for p in shape if p[1] in (VA, VK))
    if pattern == 'all':
        ann = dict((n, 'T') for n in named)
    if pattern == 'strlit':
        # the annotation is a string literal that happens to spell a global: it denotes that string, eager or postponed
        ann = dict((n, "'T'") for n in named[:1])
    ret = 'T' if pattern in ('ret', 'both', 'all') else ("'T'" if pattern == 'strlit' else None)
    ns = {'__name__': 'vfc11', 'T': T}
    src = ('from __future__ import annotations\n' if future else '') + 'def %s(%s)%s:\n    pass\n' % (
        name, space.render(shape, None, ann), (' -> ' + ret) if ret else '')
    exec(compile(src, '<vf:c11>', 'exec'), ns)
    f = ns[name]
    f._vf_T = 'T' if pattern == 'strlit' else T
    return f


def render(sig, evaluated=True):
    """Comparable form of a result: parameters with annotation *objects* replaced by their role labels."""
    s = sig.evaluated() if evaluated else sig

    def lab(v):
        return '-' if v is E else (v.label if isinstance(v, Obj) else repr(v))
    return (tuple((p.name, int(p.kind), p.default is not E, lab(p.annotation)) for p in s.parameters.values()),
            lab(s.return_annotation))


def _same(got, want):
    return got is want or (isinstance(want, str) and type(got) is str and got == want)


def evaluated_problems(sig):
    """evaluated() reports, parameter by parameter, exactly what source_value() denotes (nothing more is evaluated)."""
    probs = []
    try:
        ev = sig.evaluated()
    except Exception as e:  # noqa
        return ['evaluated() raises %s: %s' % (type(e).__name__, e)]
    for p in sig.parameters.values():
        try:
            want = p.upgraded_annotation.source_value()
        except Exception:  # noqa: reported by resolution_problems
            continue
        got = ev.parameters[p.name].annotation
        if not _same(got, want):
            probs.append('%s: evaluated() reports %r, source_value() denotes %r' % (p.name, got, want))
    try:
        want = sig.upgraded_return_annotation.source_value()
        if not _same(ev.return_annotation, want):
            probs.append('return: evaluated() reports %r, source_value() denotes %r' % (ev.return_annotation, want))
    except Exception:  # noqa
        pass
    return probs


def resolution_problems(sig, origin_of, ret_origin):
    """Every surviving annotation resolves to the object its spelling denotes in the defining function's globals."""
    probs = evaluated_problems(sig)
    for p in sig.parameters.values():
        if p.annotation is E:
            if p.upgraded_annotation.source_value() is not E:
                probs.append('%s: no annotation but upgraded annotation %r' % (p.name, p.upgraded_annotation.source_value()))
            continue
        f = origin_of(p.name)
        if f is None:
            continue
        want = getattr(f, '_vf_T', None) if not isinstance(f, (Obj, str, bool)) else f
        try:
            got = p.upgraded_annotation.source_value()
        except Exception as e:  # noqa
            probs.append('%s: source_value() raises %s: %s' % (p.name, type(e).__name__, e))
            continue
        if not _same(got, want):
            probs.append('%s: source_value() is %r, the defining globals bind the spelling to %r' % (p.name, got, want))
    if sig.return_annotation is not E and ret_origin is not None:
        want = getattr(ret_origin, '_vf_T', None) if not isinstance(ret_origin, (Obj, str, bool)) else ret_origin
        try:
            got = sig.upgraded_return_annotation.source_value()
            if not _same(got, want):
                probs.append('return: source_value() is %r, expected %r' % (got, want))
        except Exception as e:  # noqa
            probs.append('return: source_value() raises %s: %s' % (type(e).__name__, e))
    elif sig.return_annotation is E and sig.upgraded_return_annotation.source_value() is not E:
        probs.append('return: no annotation but upgraded annotation %r' % (sig.upgraded_return_annotation.source_value(),))
    return probs


def binary_ops():
    return (('embed', lambda a, b: S.embed(a, b)),
            ('forwards0', lambda a, b: S.forwards(a, b)),
            ('forwards1', lambda a, b: S.forwards(a, b, 1)),
            ('merge', lambda a, b: S.merge(a, b)),
            ('merge-rev', lambda a, b: S.merge(b, a)))


def eval_pair(o, i, pat_o, pat_i, shared, st, same_names):
    """All four compile-mode combinations of one (operation, shapes, annotation patterns, globals) configuration."""
    results = {}
    for mode in MODES:
        T1 = Obj('T@1' if not shared else 'T@shared')
        T2 = T1 if shared else Obj('T@2')
        f1 = make_fn(o, pat_o, mode[0], T1, 'f1')
        f2 = make_fn(i, pat_i, mode[1], T2, 'f2')
        s1, s2 = sigtools.signature(f1), sigtools.signature(f2)
        names1 = set(p[0] for p in o if p[1] in (PO, POK, KWO))
        for opn, fn in binary_ops():
            if same_names != opn.startswith('merge'):
                continue
            status, res = alg.outcome(fn, s1, s2)
            st.inc('transitions')
            key = opn
            if status != 'ok':
                results.setdefault(key, {})[mode] = ('raise', status)
                continue
            case = {'op': opn, 'shapes': [space.to_json(o), space.to_json(i)], 'patterns': [pat_o, pat_i], 'shared': shared,
                    'mode': list(mode)}
            # same-named parameters (merge): which side an annotation comes from is not fixed by the property; what is
            # checked is that an unannotated result parameter denotes nothing and that evaluated() agrees with source_value()
            stars1 = set(p[0] for p in o if p[1] in (VA, VK)) if pat_o == 'stars' else set()
            stars2 = set(p[0] for p in i if p[1] in (VA, VK)) if pat_i == 'stars' else set()

            def origin(n):
                if n in names1:
                    return f1
                if n in stars1 or n in stars2:
                    # a star annotated on one side only is that side's; annotated on both, either
                    return None if (n in stars1 and n in stars2) else (f1 if n in stars1 else f2)
                return f2
            probs = (resolution_problems(res, origin, f1) if not same_names
                     else resolution_problems(res, lambda n: None, None))
            if probs:
                st.violation('annotation-resolves-outside-its-defining-context', case,
                             {'operation': opn, 'first': '%s def f1%s' % ('postponed' if mode[0] else 'eager', inspect.signature(f1)),
                              'second': '%s def f2%s' % ('postponed' if mode[1] else 'eager', inspect.signature(f2)),
                              'globals': 'shared' if shared else 'per function', 'result': str(res), 'problems': probs[:4]},
                             {'op': opn})
            try:
                results.setdefault(key, {})[mode] = ('ok', render(res))
            except Exception as e:  # noqa
                results.setdefault(key, {})[mode] = ('evaluated-raises', type(e).__name__, str(e)[:100])
    for opn, by_mode in results.items():
        ref = by_mode.get((False, False))
        for mode, r in by_mode.items():
            if r != ref:
                cause = 'other'
                if (opn.startswith('merge') or (pat_o == 'stars' and pat_i == 'stars')) and ref is not None and ref[0] == 'ok' and r[0] == 'ok':
                    # merge decides whether two annotations agree by comparing them as written: the same spelling bound
                    # to different objects compares equal, an evaluated object and its postponed spelling compare unequal
                    strip = lambda x: (tuple(q[:3] for q in x[1][0]), x[1][1])
                    if strip(r) == strip(ref):
                        cause = 'merge-compares-annotations-as-written'
                st.violation('postponed-differs-from-eager-twin',
                             {'op': opn, 'shapes': [space.to_json(o), space.to_json(i)], 'patterns': [pat_o, pat_i], 'shared': shared,
                              'mode': list(mode)},
                             {'operation': opn, 'shapes': [show(o), show(i)], 'annotated': [pat_o, pat_i],
                              'globals': 'shared' if shared else 'per function',
                              'compile_modes': ['postponed' if m else 'eager' for m in mode],
                              'this_configuration': repr(r)[:300], 'all_eager_twin': repr(ref)[:300]},
                             {'cause': cause, 'op': 'star-parameters' if (pat_o == 'stars' and pat_i == 'stars' and not opn.startswith('merge'))
                              else opn.split('-')[0]})
                break
        st.seen('result', (opn, o, i, pat_o, pat_i, shared, ref))


def _unary_case(opn, fn, f, status, res, shape, pattern, future, named, V, results, st):
    st.inc('transitions')
    if status != 'ok':
        results.setdefault(opn, {})[future] = ('raise', status)
        return
    case = {'op': opn, 'shapes': [space.to_json(shape)], 'patterns': [pattern], 'future': future}

    def origin(n, opn=opn, f=f, V=V):
        if opn.startswith('annotate') or opn.endswith('annotate') or 'annotate' in opn:
            if named and n == named[-1][0] and 'ret' not in opn:
                return 'T' if opn == 'annotate-str' else (TRUE if opn == 'annotate-true-after-1' else V)
        return f
    ret_origin = V if opn == 'annotate-ret' else f
    probs = resolution_problems(res, origin, ret_origin)
    if probs:
        st.violation('annotation-resolves-outside-its-defining-context', case,
                     {'operation': opn, 'function': '%s def f%s' % ('postponed' if future else 'eager', inspect.signature(f)),
                      'result': str(res), 'problems': probs[:4]}, {'op': opn})
    try:
        results.setdefault(opn, {})[future] = ('ok', render(res))
    except Exception as e:  # noqa
        results.setdefault(opn, {})[future] = ('evaluated-raises', type(e).__name__, str(e)[:100])


def eval_unary(shape, pattern, st):
    """retrieve / mask / modifiers / annotate / partial on one function, eager and postponed."""
    named = [p for p in shape if p[1] in (PO, POK, KWO)]
    poks = [p[0] for p in shape if p[1] == POK]
    results = {}
    for future in (False, True):
        T = Obj('T')
        V = Obj('V')
        ops = [('retrieve', lambda f: sigtools.signature(f)),
               ('plain-retrieve', lambda f: S.signature(f)),
               ('mask0', lambda f: S.mask(sigtools.signature(f), 0)),
               ('mask1', lambda f: S.mask(sigtools.signature(f), 1)),
               ('replace', lambda f: sigtools.signature(f).replace()),
               ('roundtrip', lambda f: S.apply_params(sigtools.signature(f), *S.sort_params(sigtools.signature(f))))]
        for nm in poks[-1:]:
            ops.append(('kwoargs', lambda f, nm=nm: sigtools.signature(M.kwoargs(nm)(f))))
            ops.append(('kwoargs+inspect', lambda f, nm=nm: S.UpgradedSignature._upgrade(
                inspect.signature(M.kwoargs(nm)(f)), f, {}) if False else sigtools.signature(M.kwoargs(nm)(f))))
            ops.append(('mask-name', lambda f, nm=nm: S.mask(sigtools.signature(f), 0, nm)))
            ops.append(('partial-kw', lambda f, nm=nm: sigtools.signature(functools.partial(f, **{nm: 1}))))
            ops.append(('partial-kw-plain', lambda f, nm=nm: S.signature(functools.partial(f, **{nm: 1}))))
        for nm in poks[:1]:
            ops.append(('posoargs', lambda f, nm=nm: sigtools.signature(M.posoargs(end=nm)(f))))
            ops.append(('partial-pos', lambda f: sigtools.signature(functools.partial(f, 1))))
        if named:
            last = named[-1][0]
            ops.append(('annotate-param', lambda f, last=last, V=V: sigtools.signature(M.annotate(**{last: V})(f))))
            ops.append(('annotate-ret', lambda f, V=V: sigtools.signature(M.annotate(V)(f))))
            ops.append(('annotate-str', lambda f, last=last: sigtools.signature(M.annotate(**{last: 'T'})(f))))
            # a value equal to one given to an earlier, still living annotate, but not the same object
            ops.append(('annotate-true-after-1', lambda f, last=last: (
                _KEEP.append(sigtools.signature(M.annotate(1, **{last: 1})(make_fn(shape, 'none', False, T)))),
                sigtools.signature(M.annotate(**{last: True})(f)))[1]))
            if poks:
                ops.append(('annotate-then-kwoargs', lambda f, last=last, V=V: sigtools.signature(
                    M.kwoargs(poks[-1])(M.annotate(**{last: V})(f)))))
                ops.append(('kwoargs-then-annotate', lambda f, last=last, V=V: sigtools.signature(
                    M.annotate(**{last: V})(M.kwoargs(poks[-1])(f)))))
        for relabel in (False, True):
            ops_ = ops if not relabel else [(n_ + '[re-exported]', f_) for n_, f_ in ops[:4]]
            for opn, fn in ops_:
                f = make_fn(shape, pattern, future, T)
                if relabel:
                    f.__module__ = facade_module().__name__
                status, res = alg.outcome(fn, f)
                _unary_case(opn, fn, f, status, res, shape, pattern, future, named, V, results, st)
    for opn, by in results.items():
        if by.get(False) != by.get(True):
            st.violation('postponed-differs-from-eager-twin', {'op': opn, 'shapes': [space.to_json(shape)], 'patterns': [pattern]},
                         {'operation': opn, 'function': 'def f' + show(shape), 'annotated': pattern,
                          'postponed': repr(by.get(True))[:300], 'eager': repr(by.get(False))[:300]}, {'cause': 'other', 'op': opn})
        st.seen('result', (opn, shape, pattern, by.get(False)))


# ---------------------------------------------------------------------------
# callables that are not functions: the annotations belong to the function behind them

OBJECTS_SRC = '''
import functools
import inspect


def base(a: T, b: T = None) -> T:
    return a


def sigattr_wrapper(*args, **kwargs):
    return base(*args, **kwargs)


sigattr_wrapper.__signature__ = inspect.signature(base)


def wrapped_attr_wrapper(*args, **kwargs):
    return base(*args, **kwargs)


wrapped_attr_wrapper.__wrapped__ = base


class K(object):
    def __call__(self, a: T, b: T = None) -> T:
        return a


class D(object):
    def __init__(self, a: T, b: T = None):
        pass


class N(object):
    def __new__(cls, a: T, b: T = None):
        return object.__new__(cls)


class Sub(D):
    pass


class H(object):
    @staticmethod
    def sm(a: T, b: T = None) -> T:
        return a

    @classmethod
    def cm(cls, a: T, b: T = None) -> T:
        return a

    def m(self, a: T, b: T = None) -> T:
        return a
'''
OBJECTS = (('callable instance', lambda ns: ns['K']()), ('bound __call__', lambda ns: ns['K']().__call__),
           ('class with __init__', lambda ns: ns['D']), ('class with __new__', lambda ns: ns['N']),
           ('subclass inheriting __init__', lambda ns: ns['Sub']),
           ('staticmethod through the class', lambda ns: ns['H'].sm), ('classmethod through the class', lambda ns: ns['H'].cm),
           ('bound method', lambda ns: ns['H']().m), ('partial of a callable instance', lambda ns: functools.partial(ns['K'](), 1)),
           ('partial of a class', lambda ns: functools.partial(ns['D'], b=1)),
           ('unannotated wrapper advertising a plain __signature__', lambda ns: ns['sigattr_wrapper']),
           ('unannotated wrapper with a hand-set __wrapped__', lambda ns: ns['wrapped_attr_wrapper']),
           ('partial of a wrapper advertising a plain __signature__', lambda ns: functools.partial(ns['sigattr_wrapper'], 1)), ('partial of a bound method', lambda ns: functools.partial(ns['H']().m, 1)))


def eval_objects(st):
    results = {}
    for future in (False, True):
        T = Obj('T')
        ns = {'__name__': 'vfc11obj', 'T': T}
        exec(compile(('from __future__ import annotations\n' if future else '') + OBJECTS_SRC, '<vf:c11obj>', 'exec'), ns)
        for label, make in OBJECTS:
            for route, getter in (('sigtools.signature', sigtools.signature), ('signatures.signature', S.signature)):
                st.inc('states')
                st.inc('transitions')
                obj = make(ns)
                case = {'op': 'object', 'object': label, 'route': route, 'future': future}
                try:
                    sig = getter(obj)
                except Exception as e:  # noqa: totality is C07's
                    results[(label, route, future)] = ('raise', type(e).__name__)
                    continue
                probs = resolution_problems(sig, lambda n: T, T)
                if probs:
                    under = obj.func if isinstance(obj, functools.partial) else obj
                    feat = {'op': 'object'}
                    if not hasattr(under, '__code__') and all("is <class 'inspect._empty'>" in p_ or 'reports <class' in p_ for p_ in probs):
                        # classes and callable instances have no code object of their own: their annotations are not upgraded
                        feat = {'cause': 'annotations-of-a-callable-without-code-object-not-upgraded'}
                    st.violation('annotation-resolves-outside-its-defining-context', case,
                                 {'operation': '%s(%s)' % (route, label), 'compiled': 'postponed' if future else 'eager',
                                  'result': str(sig), 'problems': probs[:4]}, feat)
                try:
                    results[(label, route, future)] = ('ok', render(sig))
                except Exception as e:  # noqa
                    results[(label, route, future)] = ('evaluated-raises', type(e).__name__)
    for (label, route, future), r in sorted(results.items()):
        if future and r != results.get((label, route, False)):
            st.violation('postponed-differs-from-eager-twin', {'op': 'object', 'object': label, 'route': route},
                         {'operation': '%s(%s)' % (route, label), 'postponed': repr(r)[:300],
                          'eager': repr(results.get((label, route, False)))[:300]}, {'cause': 'other', 'op': 'object'})
        if not future:
            st.seen('result', ('object', label, route, r))


# ---------------------------------------------------------------------------
# discovery across modules with different globals and compile modes

def discovery_sources(future_w, future_c):
    callee = ('class T(object):\n    label = "T@callee"\n\n\ndef callee(x: T, y: T = None, *, z: T = None) -> T:\n    return x\n')
    wrapper = ('class T(object):\n    label = "T@wrapper"\n\nCAL = None\n\n\ndef w(a: T, *args, **kwargs) -> T:\n    return CAL(*args, **kwargs)\n\n\n'
               'def w2(b: T, *args, **kwargs) -> T:\n    return w(*args, **kwargs)\n\n\n'
               'from sigtools import modifiers\n\n\n@modifiers.annotate(T, c=T)\ndef w3(c, *args, **kwargs):\n    return CAL(*args, **kwargs)\n')
    return wrapper, callee


def eval_discovery(st):
    results = {}
    for fw in (False, True):
        for fc in (False, True):
            wsrc, csrc = discovery_sources(fw, fc)
            bw, bc = progs.Batch(future=fw, prelude=''), progs.Batch(future=fc, prelude='')
            bw.add(wsrc, 5)
            bc.add(csrc, 5)
            bw.load()
            bc.load()
            try:
                mw, mc = bw.modules[0], bc.modules[0]
                mw.CAL = mc.callee
                for name in ('w', 'w2', 'w3'):
                    st.inc('states')
                    st.inc('transitions')
                    sig = sigtools.signature(getattr(mw, name))
                    probs = []
                    own = {'w': 'a', 'w2': 'b', 'w3': 'c'}[name]
                    if own not in sig.parameters or sig.parameters[own].annotation is E:
                        probs.append('%s: the annotation %s is gone' % (own, 'given to modifiers.annotate' if name == 'w3' else 'of the def'))
                    for p in sig.parameters.values():
                        if p.annotation is E:
                            continue
                        want = mw.T if p.name in ('a', 'b', 'c') else mc.T
                        got = p.upgraded_annotation.source_value()
                        if got is not want:
                            probs.append('%s: source_value() is %r (%s), expected %s' % (p.name, got, getattr(got, 'label', '?'), want.label))
                    if sig.upgraded_return_annotation.source_value() is not mw.T:
                        probs.append('return: %r' % (sig.upgraded_return_annotation.source_value(),))
                    ev = sig.evaluated()
                    rend = (tuple((p.name, int(p.kind), getattr(p.annotation, 'label', '-')) for p in ev.parameters.values()),
                            getattr(ev.return_annotation, 'label', '-'))
                    results.setdefault(name, {})[(fw, fc)] = rend
                    if probs:
                        st.violation('annotation-resolves-outside-its-defining-context',
                                     {'op': 'discovery', 'name': name, 'mode': [fw, fc]},
                                     {'operation': 'discovery of %s' % name, 'wrapper_module': 'postponed' if fw else 'eager',
                                      'callee_module': 'postponed' if fc else 'eager', 'result': str(sig), 'problems': probs}, {'op': 'discovery'})
            finally:
                bw.close()
                bc.close()
    for name, by in results.items():
        ref = by[(False, False)]
        for mode, r in by.items():
            if r != ref:
                st.violation('postponed-differs-from-eager-twin', {'op': 'discovery', 'name': name, 'mode': list(mode)},
                             {'operation': 'discovery of %s' % name, 'modes': list(mode), 'this': repr(r), 'all_eager': repr(ref)},
                             {'cause': 'other', 'op': 'discovery'})
        st.seen('result', ('discovery', name, ref))


def shard(tier, sh):
    kind = sh[0]
    st = runner.Stats()
    if kind == 'discovery':
        eval_discovery(st)
        eval_objects(st)
        return st
    if kind == 'unary':
        shapes = [s for s in space.universe(2, 'ab') if space.name_sorted(s)]
        for shape in shapes[sh[1]:sh[2]]:
            for pattern in PATTERNS + ('all', 'strlit'):
                st.inc('states')
                eval_unary(shape, pattern, st)
        return st
    outs = space.universe(1, 'a') if tier == 'quick' else [s for s in space.universe(2, 'ab') if space.name_sorted(s)]
    for o in outs[sh[1]:sh[2]]:
        for same_names in (False, True):
            inns = space.universe(1, 'a') if same_names else space.universe(1, 'x')
            for i in inns:
                for pat_o in PATTERNS:
                    for pat_i in PATTERNS:
                        for shared in (True, False):
                            st.inc('states')
                            eval_pair(o, i, pat_o, pat_i, shared, st, same_names)
        st.sample({'first': show(o), 'patterns': list(PATTERNS), 'modes': 'eager/postponed per function', 'globals': 'shared / per function'}, 1)
    return st


def run(tier, seed):
    outs = space.universe(1, 'a') if tier == 'quick' else [s for s in space.universe(2, 'ab') if space.name_sorted(s)]
    nu = len([s for s in space.universe(2, 'ab') if space.name_sorted(s)])
    shards = [('pairs', i, i + 1) for i in range(len(outs))] + [('unary', i, min(nu, i + 8)) for i in range(0, nu, 8)] + [('discovery',)]
    st = runner.run_shards(__name__, 'shard', tier, shards, seed)
    coverage = {
        'exhaustive': True,
        'states': st.c.get('states', 0),
        'transitions': st.c.get('transitions', 0),
        'traces_validated_against_impl': st.c.get('transitions', 0),
        'evaluations': st.c.get('transitions', 0),
        'distinct_nontrivial': len(st.distinct.get('result', ())),
        'rule': 'states = configurations (operation inputs x annotated subset x globals); transitions = operations really run, in '
                'every compile-mode combination: embed / forwards / merge on pairs (4 mode combinations x shared / per-function '
                'globals with the same spelling T), retrieval / mask / replace / apply_params(sort_params) / kwoargs / posoargs / '
                'annotate (before and after a modifier) / partial (positional and keyword, both retrieval routes) on single '
                'functions (eager and postponed), discovery across two real modules in all 4 mode combinations; oracle: identity '
                'of source_value() with the object bound in the defining globals, and equality of evaluated() with the all-eager twin',
        'bound': 'quick: pairs over <=1 named parameter per function, unary over name-sorted <=2 named; annotation patterns none / first parameter / return / both (/ all)',
    }
    assumptions = [
        'annotations are compared by object identity with what the spelling denotes in the defining function\'s globals',
        'for merge of same-named parameters the defining context is ambiguous; only the twin equality is checked there',
    ]
    return st, coverage, assumptions


def replay(art):
    c = art['case']
    st = runner.Stats()
    if c['op'] == 'object':
        eval_objects(st)
    elif c['op'] == 'discovery':
        eval_discovery(st)
    elif len(c['shapes']) == 1:
        eval_unary(space.from_json(c['shapes'][0]), c['patterns'][0], st)
    else:
        o, i = (space.from_json(x) for x in c['shapes'])
        same = c['op'].startswith('merge')
        eval_pair(o, i, c['patterns'][0], c['patterns'][1], c['shared'], st, same)
    return runner.fresh_details('C11', st) or None
