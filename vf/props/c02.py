"""C02 -- embed = outer forwarding its *args/**kwargs to inner (engine E1, forwarding model F)."""
import itertools

from sigtools import signatures as S

from vf import space, alg, runner
from vf.binder import Alphabet
from vf.space import PO, POK, VA, KWO, VK, show, shape_of, valid_shape

PROP = 'C02'
_SL = {}
BOTH_VA, BOTH_VK = ('args', 'p'), ('kwargs', 'k')
USE = [(True, True), (True, False), (False, True), (False, False)]


def slices(tier):
    if tier in _SL:
        return _SL[tier]
    first = lambda u: [s for s in u if space.name_sorted(s) and space.std_stars(s)]
    out = {
        # kind, names, nmax, outers, inners, use-combos
        'pairs-S2': ('pairs', ('a', 'b', 'x', 'y', 'args', 'kwargs', 'p', 'k', 'zz'), 5,
                     first(space.universe(2, 'ab')), space.universe(2, 'axy', BOTH_VA, BOTH_VK), USE),
        'triples-S1': ('triples', ('a', 'b', 'c', 'args', 'kwargs', 'zz'), 4,
                       space.universe(1, 'abc'), space.universe(1, 'abc'), USE[:1]),
        'bare-outer-S3': ('bare', ('a', 'b', 'c', 'args', 'kwargs', 'p', 'k', 'zz'), 4,
                          [(('args', VA, False), ('kwargs', VK, False))],
                          space.universe(3, 'abc', BOTH_VA, BOTH_VK), USE[:1]),
        # inner named parameters called like the outer's star parameters
        'starnamed-inner-S2': ('pairs', ('a', 'args', 'kwargs', 'p', 'k', 'zz'), 4,
                               [(('args', VA, False), ('kwargs', VK, False)), (('a', space.POK, False), ('args', VA, False), ('kwargs', VK, False)),
                                (('args', VA, False),), (('kwargs', VK, False),)],
                               space.universe(2, ('args', 'kwargs'), ('p',), ('k',)), USE),
        'bare-outer-starnamed-S2': ('bare', ('a', 'args', 'kwargs', 'p', 'k', 'zz'), 4,
                                    [(('args', VA, False), ('kwargs', VK, False))],
                                    space.universe(2, ('args', 'kwargs'), ('p',), ('k',)), USE[:1]),
    }
    if tier == 'thorough':
        out['pairs-S3'] = ('pairs', ('a', 'b', 'c', 'x', 'y', 'args', 'kwargs', 'zz'), 7,
                           first(space.universe(3, 'abc')), space.universe(3, 'axy'), USE)
        out['pairs-S2-clash2'] = ('pairs', ('a', 'b', 'x', 'args', 'kwargs', 'p', 'k', 'zz'), 5,
                                  first(space.universe(2, 'ab')), space.universe(2, 'abx', BOTH_VA, BOTH_VK), USE)
        out['triples-S1-allflags'] = ('triples', ('a', 'b', 'c', 'args', 'kwargs', 'p', 'k', 'zz'), 4,
                                      space.universe(1, 'abc'), space.universe(1, 'abc', BOTH_VA, BOTH_VK), USE)
    _SL[tier] = out
    return out


def shards(tier):
    out = []
    for name, v in slices(tier).items():
        n = len(v[3])
        per = max(1, n // 64)
        for i in range(0, n, per):
            out.append((name, i, min(n, i + per)))
    return out


_ALPHA = {}


def alphabet(names, nmax):
    key = (names, nmax)
    if key not in _ALPHA:
        _ALPHA[key] = Alphabet(names, nmax)
    return _ALPHA[key]


def forwarding_truth(alpha, outer, inner, uva, uvk):
    """Model F: bitset of calls c=(n,K) such that outer accepts c and inner accepts what outer forwards:
    (surplus positionals if use_varargs else 0, keywords not bound to outer's parameters if use_varkwargs else none)."""
    kc = alpha.kcount
    P_o = len(space.positionals(outer))
    W = alpha.mask(space.kwpass(outer))
    notW = (kc - 1) & ~W
    acc_i = alpha.acc(inner)
    F = 0
    blocks = {}
    for n in range(alpha.nmax + 1):
        nsur = max(0, n - P_o) if uva else 0
        G = blocks.get(nsur)
        if G is None:
            IB = (acc_i >> (nsur * kc)) & alpha.kfull
            if uvk:
                G = IB & alpha.sub[notW]
                for i in range(alpha.m):
                    if W >> i & 1:
                        G |= G << (1 << i)
                G &= alpha.kfull
            else:
                G = alpha.kfull if IB & 1 else 0
            blocks[nsur] = G
        F |= G << (n * kc)
    return alpha.acc(outer) & F


def eval_pair(alpha, outer, inner, uva, uvk, st):
    so, si = alg.sig_of(outer), alg.sig_of(inner)
    status, res = alg.outcome(S.embed, so, si, use_varargs=uva, use_varkwargs=uvk)
    st.inc('transitions')
    case = {'op': 'embed', 'outer': space.to_json(outer), 'inner': space.to_json(inner),
            'use_varargs': uva, 'use_varkwargs': uvk, 'alphabet': [list(alpha.names), alpha.nmax]}

    def viol(kind, **d):
        detail = {'outer': show(outer), 'inner': show(inner), 'use_varargs': uva, 'use_varkwargs': uvk,
                  'outcome': alg.sig_str(res) if status == 'ok' else '%s: %s' % (type(res).__name__, res)}
        detail.update(d)
        st.violation(kind, case, detail)
        return detail

    if status == 'other':
        st.inc('raised:other(C15)')
        return None
    excl = alpha.excluded(outer) | alpha.excluded(inner)
    T = forwarding_truth(alpha, outer, inner, uva, uvk)
    st.inc('evaluations', alpha.size)
    if status in ('incompat', 'valueerror'):
        # whatever ValueError it is (its class is C15's business): refusing must be justified
        st.inc('raised:' + status)
        clash = set(space.names_of(outer)) & set(space.names_of(inner))
        if not clash and T & ~excl:
            n, K = alpha.first(T & ~excl)
            return viol('embed-unjustified-raise', witness={'positionals': n, 'keywords': K},
                        clause='raises although no names clash and some call could succeed')
        st.seen('outcome', ('raise', bool(clash)))
        return None
    r = shape_of(res)
    if not valid_shape(r):
        st.inc('malformed-result(C15)')
        return None
    st.seen('result', r)
    if r != outer and r != inner:
        st.inc('nontrivial')
    accr = alpha.acc(r)
    dom = alpha.noncolliding(r, [outer, inner]) & ~excl & ~alpha.excluded(r)
    bad = accr & ~T & dom
    if bad:
        n, K = alpha.first(bad)
        return viol('embed-unsound', call={'positionals': n, 'keywords': K},
                    clause='result accepts a call that outer rejects or whose forwarded surplus inner rejects')
    outer_names = set(space.names_of(outer))
    exempt = any(p[2] for p in space.positionals(outer)) and any(
        p[0] not in outer_names for p in space.positionals(r))
    if not exempt:
        miss = T & ~accr & dom
        if miss:
            n, K = alpha.first(miss)
            return viol('embed-inexact', call={'positionals': n, 'keywords': K},
                        clause='result rejects a call that works (no defaulted outer positional followed by inner positionals)')
    else:
        st.inc('exactness-exempt')
    return None


def eval_triple(a, b, c, uva, uvk, st):
    sa, sb, sc = alg.sig_of(a), alg.sig_of(b), alg.sig_of(c)
    s1, r1 = alg.outcome(S.embed, sa, sb, sc, use_varargs=uva, use_varkwargs=uvk)

    def nested():
        return S.embed(S.embed(sa, sb, use_varargs=uva, use_varkwargs=uvk), sc, use_varargs=uva, use_varkwargs=uvk)
    s2, r2 = alg.outcome(nested)
    st.inc('transitions', 3)
    if 'other' in (s1, s2) or 'valueerror' in (s1, s2):
        st.inc('raised:other(C15)')
        return None
    if s1 == 'ok':
        st.seen('result', shape_of(r1))
    if (s1 == 'ok') != (s2 == 'ok') or (s1 == 'ok' and alg.params_key(r1) != alg.params_key(r2)):
        d = {'sigs': [show(a), show(b), show(c)], 'use_varargs': uva, 'use_varkwargs': uvk,
             'flat': alg.sig_str(r1) if s1 == 'ok' else repr(r1), 'nested': alg.sig_str(r2) if s2 == 'ok' else repr(r2)}
        st.violation('embed-fold-law', {'op': 'embed3', 'sigs': [space.to_json(x) for x in (a, b, c)],
                                        'use_varargs': uva, 'use_varkwargs': uvk}, d)
        return d
    return None


def eval_bare(outer, inner, st):
    so, si = alg.sig_of(outer), alg.sig_of(inner)
    status, res = alg.outcome(S.embed, so, si)
    st.inc('transitions')
    if status == 'ok':
        st.seen('result', shape_of(res))
    if status != 'ok' or alg.params_key(res) != alg.params_key(si):
        d = {'outer': show(outer), 'inner': show(inner),
             'outcome': alg.sig_str(res) if status == 'ok' else repr(res)}
        st.violation('embed-bare-outer-not-identity', {'op': 'embed-bare', 'outer': space.to_json(outer),
                                                       'inner': space.to_json(inner)}, d)
        return d
    return None


def shard(tier, sh):
    name, i0, i1 = sh
    kind, names, nmax, outers, inners, uses = slices(tier)[name]
    alpha = alphabet(names, nmax)
    st = runner.Stats()
    for o in outers[i0:i1]:
        if kind == 'pairs':
            for i in inners:
                st.inc('states')
                for uva, uvk in uses:
                    eval_pair(alpha, o, i, uva, uvk, st)
            if len(o) == 3:
                st.sample({'slice': name, 'outer': show(o), 'inner': show(inners[len(inners) // 2]), 'use': 'all 4 combinations'}, 2)
        elif kind == 'triples':
            for b, c in itertools.product(inners, repeat=2):
                st.inc('states')
                for uva, uvk in uses:
                    eval_triple(o, b, c, uva, uvk, st)
        else:
            for i in inners:
                st.inc('states')
                eval_bare(o, i, st)
    st.inc('validated', alpha.validated)
    alpha.validated = 0
    return st


def run(tier, seed):
    sl = slices(tier)
    st = runner.run_shards(__name__, 'shard', tier, shards(tier), seed)
    coverage = {
        'exhaustive': True,
        'states': st.c.get('states', 0),
        'transitions': st.c.get('transitions', 0),
        'traces_validated_against_impl': st.c.get('validated', 0),
        'evaluations': st.c.get('evaluations', 0),
        'distinct_nontrivial': len(st.distinct.get('result', ())),
        'rule': 'every (outer, inner) of the slice x 4 use_varargs/use_varkwargs combinations x whole call alphabet, '
                'truth computed by forwarding model F from the binder model; triples for the fold law; bare '
                '(*args, **kwargs) outer for the identity law; distinct_nontrivial = distinct result shapes',
        'slices': dict((k, {'kind': v[0], 'outers': len(v[3]), 'inners': len(v[4]), 'use_combinations': len(v[5]),
                            'call_alphabet': {'names': list(v[1]), 'max_positionals': v[2]}}) for k, v in sl.items()),
        'bound': 'k<=2 per operand pairs, k<=1 triples, k<=3 bare-outer (quick); k<=3 pairs, all flags triples (thorough)',
    }
    assumptions = [
        'binder model B replayed against CPython for every shape used; forwarding model F is validated against '
        'executed wrapper programs by C04',
        'IncompatibleSignatures is accepted whenever outer and inner share any parameter name (star names included) '
        '-- the weakest reading of "both declare a same-named parameter"',
        'exactness is not demanded when outer has a defaulted positional parameter and the result has a positional '
        'parameter that is not outer\'s (the stated exemption)',
    ]
    return st, coverage, assumptions


def replay(art):
    case = art['case']
    st = runner.Stats()
    if case['op'] == 'embed':
        names, nmax = case['alphabet']
        alpha = Alphabet(tuple(names), nmax)
        return eval_pair(alpha, space.from_json(case['outer']), space.from_json(case['inner']),
                         case['use_varargs'], case['use_varkwargs'], st)
    if case['op'] == 'embed3':
        a, b, c = (space.from_json(x) for x in case['sigs'])
        return eval_triple(a, b, c, case['use_varargs'], case['use_varkwargs'], st)
    return eval_bare(space.from_json(case['outer']), space.from_json(case['inner']), st)
