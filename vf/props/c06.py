"""C06 -- automatic discovery agrees with the equivalent explicit declaration.

Same program space as C05 (engine E3).  The expectation is computed from the
generator's ground truth through the public algebra only
(forwards / merge / mask), so it is independent of the AST walker.  Plus the
metamorphic part: programs that differ only in statement context, decoy
statements or resolution route must give one result."""
from sigtools import signatures as S

from vf import space, alg, runner, grammar, discovery, slices
from vf.space import show, shape_of

PROP = 'C06'
CHUNK = 400


def claimed(pr):
    """Programs for which 'the same forwarding declared explicitly' is unambiguous."""
    if pr.route == 'param':
        return False            # partial objects: C19
    if pr.route == 'partial_helper' and len(pr.calls) > 1:
        return False            # the first call hands the helper's name to functools.partial: "cannot be resolved" afterwards
    if pr.context == 'ifelse_same' and pr.route in ('partial', 'helper', 'partial_helper'):
        return False            # the first call hands the callee's name to other code: "cannot be resolved" afterwards
    if pr.taint and grammar.taints(pr.taint) and pr.taint[2] == 'after' and pr.context in grammar.NESTED_CONTEXTS:
        return False            # execution order of a nested function is not static
    return True


def eval_prog(ld, st, groups=None):
    pr = ld.prog
    if not claimed(pr):
        st.inc('not_claimed')
        return
    case = {'program': grammar.to_json(pr)}
    st.inc('states')
    status, sig = discovery.retrieve(ld)
    exps, why = discovery.expected(ld)
    st.inc('expect:' + why)
    if status != 'ok':
        st.violation('retrieval-raises-instead-of-fallback', case,
                     {'program': discovery.show_prog(ld), 'error': '%s: %s' % (type(sig).__name__, sig),
                      'expected': str(exps[0])}, {'exception': type(sig).__name__, 'why': why})
        return
    st.inc('transitions')
    got_p = alg.params_key(sig)
    got_s = discovery.src_multiset(sig)
    ok_params = [e for e in exps if alg.params_key(e) == got_p]
    if not ok_params:
        st.violation('discovered-signature-differs-from-declaration', case,
                     {'program': discovery.show_prog(ld), 'discovered': str(sig), 'declared': [str(e) for e in exps],
                      'expectation': why}, {'context': pr.context, 'route': pr.route, 'why': why,
                                            'taint': pr.taint[0] if pr.taint else None})
        return
    if pr.route in ('wrapssig', 'kpartial'):
        # parameters only (kpartial: the partial object itself is part of the real provenance): the expectation was computed on a bare copy of the wrapper, whose provenance names that copy
        if why == 'declared':
            st.seen('nontrivial', (pr.outer, pr.calls[0].callee, shape_of(sig)))
        return
    if pr.route == 'wrapsdeco':
        # one more level of forwarding: the only-wrapping decorator at depth 0, the wrapper below it
        d = dict((discovery.fid(f), v) for f, v in sig.sources.get('+depths', {}).items())
        if why == 'declared' and not (d.get(discovery.fid(ld.w)) == 0 and d.get(discovery.fid(discovery.own_func(ld)), 1) == 1):
            st.violation('discovered-provenance-differs-from-declaration', case,
                         {'program': discovery.show_prog(ld), 'discovered_sources': alg.src_show(sig),
                          'problem': 'decorator that only wraps is not at depth 0 with the wrapper at depth 1'}, {'route': pr.route})
    elif not any(discovery.src_multiset(e) == got_s for e in ok_params):
        st.violation('discovered-provenance-differs-from-declaration', case,
                     {'program': discovery.show_prog(ld), 'discovered': str(sig), 'discovered_sources': alg.src_show(sig),
                      'declared_sources': alg.src_show(ok_params[0])}, {'context': pr.context, 'route': pr.route, 'why': why})
        return
    if why == 'declared':
        st.seen('nontrivial', (pr.outer, pr.calls[0].callee, shape_of(sig)))
    if groups is not None and not pr.taint and pr.context not in grammar.SHADOW_CONTEXTS + ('ifelse_unres',):
        # metamorphic groups: same shapes and argument shapes, any context / route
        key = (pr.outer, tuple((c.callee, c.npos, c.names, c.va, c.vk) for c in pr.calls))
        groups.setdefault(key, []).append((got_p if pr.route != 'method' else got_p, pr.context, pr.route, ld))


def check_groups(groups, st):
    for key, members in groups.items():
        # bound methods resolve self: parameter lists are compared as reported (self already removed), the
        # partial route returns a partial (different declaration): grouped apart
        by = {}
        for got_p, ctx, route, ld in members:
            by.setdefault('partial' if route in ('partial', 'partial_helper') else 'call', []).append((got_p, ctx, route, ld))
        for _, ms in by.items():
            st.inc('metamorphic_groups')
            ref = ms[0]
            for m in ms[1:]:
                if m[0] != ref[0]:
                    st.violation('outcome-depends-on-context-or-route', {'program': grammar.to_json(m[3].prog)},
                                 {'program': discovery.show_prog(m[3]), 'other_program': discovery.show_prog(ref[3]),
                                  'this': str(discovery.retrieve(m[3])[1]), 'other': str(discovery.retrieve(ref[3])[1])},
                                 {'context': m[1], 'route': m[2]})
                    break


def shard(tier, sh):
    name, i0, i1 = sh
    plist = dict(slices.all_slices(tier))[name][i0:i1]
    st = runner.Stats()
    batch, loaded = discovery.load(plist, uid_base=i0)
    groups = {} if name.startswith('S2') else None
    try:
        for ld in loaded:
            eval_prog(ld, st, groups)
        if groups:
            check_groups(groups, st)
        if loaded:
            st.sample({'slice': name, 'program': discovery.show_prog(loaded[len(loaded) // 3])}, 1)
    finally:
        batch.close()
    return st


def shards(tier):
    out = []
    for name, plist in slices.all_slices(tier):
        if name.startswith('S2'):
            # keep whole metamorphic groups (one pair x argument shape = contexts x routes) inside a shard
            per = (len(grammar.CONTEXTS) + 1) * len(grammar.ROUTES)
            for i in range(0, len(plist), per):
                out.append((name, i, min(len(plist), i + per)))
        else:
            for i in range(0, len(plist), CHUNK):
                out.append((name, i, min(len(plist), i + CHUNK)))
    return out


def run(tier, seed):
    st = runner.run_shards(__name__, 'shard', tier, shards(tier), seed)
    sl = dict((n, len(l)) for n, l in slices.all_slices(tier))
    coverage = {
        'exhaustive': True,
        'states': st.c.get('states', 0),
        'transitions': st.c.get('transitions', 0),
        'traces_validated_against_impl': st.c.get('transitions', 0),
        'evaluations': st.c.get('transitions', 0),
        'distinct_nontrivial': len(st.distinct.get('nontrivial', ())),
        'slices': sl,
        'rule': 'states = programs of the grammar slices (same space as C05) written to real files; transitions = '
                'discovery results compared (parameters with all metadata, provenance as name -> multiset of callables, '
                'depths) with merge(*[forwards(plain(wrapper), signature(callee), n, *names, use_*, hide_*, partial)]) '
                'computed from the generator ground truth, any order of the calls; plain signature expected when nothing '
                'is forwarded or the declaration raises; metamorphic groups (all contexts x routes of one shape pair and '
                'argument shape) must agree; distinct_nontrivial = distinct (outer, callee, discovered shape) triples '
                'where a declaration applied',
        'bound': 'as C05',
    }
    assumptions = [
        'not claimed: partial objects as retrieval target (C19) and programs whose taint follows the invocation of a nested function (execution order not static)',
        'with several forwarding calls the result must equal the declaration for some order of the calls',
    ]
    return st, coverage, assumptions


def replay(art):
    pr = grammar.from_json(art['case']['program'])
    st = runner.Stats()
    batch, loaded = discovery.load([pr])
    try:
        eval_prog(loaded[0], st)
    finally:
        batch.close()
    return [v['detail'] for v in st.viol] or None
