"""C09 -- merge precision on name-aligned inputs, identity / neutral-element / round-trip / fold laws (E1)."""
import itertools

from sigtools import signatures as S

from vf import space, alg, runner
from vf.binder import Alphabet
from vf.space import VA, VK, show, shape_of, valid_shape, role_consistent, name_aligned
from vf.props import c01

PROP = 'C09'
_SL = {}
BOTH_VA, BOTH_VK = ('args', 'p'), ('kwargs', 'k')


def slices(tier):
    if tier in _SL:
        return _SL[tier]
    first = lambda u: [s for s in u if space.name_sorted(s) and space.std_stars(s)]
    u2 = space.universe(2, 'abc', BOTH_VA, BOTH_VK)
    u1 = space.universe(1, 'abc', BOTH_VA, BOTH_VK)
    u1_first = [s for s in u1 if space.std_stars(s) and all(p[0] in ('a', 'args', 'kwargs') for p in s)]
    out = {
        'aligned-pairs-S2': ('pairs', c01.NAMES8, 5, first(u2), u2),
        'rc-triples-S1': ('triples', c01.NAMES8, 4, u1_first, u1),
        'laws-S3': ('laws', c01.NAMES8, 4, space.universe(3, 'abc', BOTH_VA, BOTH_VK), None),
    }
    if tier == 'thorough':
        u3 = space.universe(3, 'abc')
        out['aligned-pairs-S3'] = ('pairs', c01.NAMES6, 7, first(u3), u3)
        u2ab = space.universe(2, 'ab', BOTH_VA, BOTH_VK)
        out['rc-triples-S2ab'] = ('triples', c01.NAMES7, 7, first(u2ab), u2ab)
        out['laws-S4'] = ('laws', ('a', 'b', 'c', 'd', 'args', 'kwargs', 'zz'), 5,
                          [s for s in space.universe(4, 'abcd', min_named=4) if space.name_sorted(s)], None)
    _SL[tier] = out
    return out


def shards(tier):
    out = [('history', 0, 0)]
    for name, v in slices(tier).items():
        n = len(v[3])
        per = max(1, n // 64)
        for i in range(0, n, per):
            out.append((name, i, min(n, i + per)))
    return out


def eval_pair(alpha, a, b, st):
    shapes = (a, b)
    sigs = [alg.sig_of(a), alg.sig_of(b)]
    status, res = alg.outcome(S.merge, *sigs)
    st.inc('transitions')
    if status in ('valueerror', 'other'):
        st.inc('raised:%s(C15)' % status)
        return None
    case = {'op': 'merge-precision', 'inputs': [space.to_json(x) for x in shapes],
            'alphabet': [list(alpha.names), alpha.nmax]}
    excl = alpha.excluded(a) | alpha.excluded(b)
    common = alpha.acc(a) & alpha.acc(b)
    st.inc('evaluations', alpha.size)

    def viol(kind, **d):
        detail = {'inputs': [show(a), show(b)],
                  'outcome': alg.sig_str(res) if status == 'ok' else 'IncompatibleSignatures'}
        detail.update(d)
        st.violation(kind, case, detail)
        return detail

    if status == 'incompat':
        st.inc('raised:incompat')
        st.seen('outcome', ('raise', a, b))
        if common & ~excl:
            n, K = alpha.first(common & ~excl)
            return viol('merge-needless-raise', witness={'positionals': n, 'keywords': K},
                        clause='raises although a call exists that all inputs accept')
        return None
    r = shape_of(res)
    if not valid_shape(r):
        st.inc('malformed-result(C15)')
        return None
    st.seen('result', r)
    if r not in shapes:
        st.inc('nontrivial')
    dom = alpha.noncolliding(r, shapes) & ~excl & ~alpha.excluded(r)
    accr = alpha.acc(r)
    diff = (accr ^ common) & dom
    if diff:
        n, K = alpha.first(diff)
        return viol('merge-imprecise' if common & diff & -diff else 'merge-unsound',
                    call={'positionals': n, 'keywords': K}, result_accepts=bool(accr & alpha.call_bit(n, K)),
                    clause='merged accepts exactly the non-colliding calls all inputs accept')
    if not common & ~excl:
        return viol('merge-missing-raise', clause='returns although no call is accepted by all inputs')
    return None


def eval_triple(a, b, c, st):
    sa, sb, sc = alg.sig_of(a), alg.sig_of(b), alg.sig_of(c)
    s1, r1 = alg.outcome(S.merge, sa, sb, sc)
    s2, r2 = alg.outcome(lambda: S.merge(S.merge(sa, sb), sc))
    st.inc('transitions', 3)
    if 'other' in (s1, s2) or 'valueerror' in (s1, s2):
        st.inc('raised:other(C15)')
        return None
    if s1 == 'ok':
        st.seen('result', shape_of(r1))
    same = (s1 == 'ok') == (s2 == 'ok') and (s1 != 'ok' or (
        alg.params_key(r1) == alg.params_key(r2) and alg.src_key(r1) == alg.src_key(r2)))
    if not same:
        d = {'inputs': [show(a), show(b), show(c)],
             'flat': alg.sig_str(r1) if s1 == 'ok' else repr(r1), 'nested': alg.sig_str(r2) if s2 == 'ok' else repr(r2),
             'flat_sources': alg.src_show(r1) if s1 == 'ok' else None,
             'nested_sources': alg.src_show(r2) if s2 == 'ok' else None}
        st.violation('merge-fold-law', {'op': 'merge3', 'inputs': [space.to_json(x) for x in (a, b, c)]}, d)
        return d
    return None


def star_norm(key):
    return tuple(('*' if k == 2 else '**' if k == 4 else n, k, d, an) for n, k, d, an in key)


def eval_laws(s, st):
    sig = alg.sig_of(s)
    pk = alg.params_key(sig)
    case = {'op': 'merge-laws', 'sig': space.to_json(s)}
    bad = []
    stars = alg.sig_of((('args', VA, False), ('kwargs', VK, False)))
    checks = [
        ('merge(s) == s', lambda: S.merge(sig), False),
        ('merge(s, s) == s', lambda: S.merge(sig, sig), False),
        ('merge(s, (*args, **kwargs)) == s up to star names', lambda: S.merge(sig, stars), True),
        ('merge((*args, **kwargs), s) == s up to star names', lambda: S.merge(stars, sig), True),
        ('apply_params(s, *sort_params(s)) == s', lambda: S.apply_params(sig, *S.sort_params(sig)), False),
    ]
    for law, fn, norm in checks:
        status, res = alg.outcome(fn)
        st.inc('transitions')
        ok = status == 'ok'
        if ok:
            k = alg.params_key(res)
            if norm:
                ok = star_norm(k) == star_norm(pk)
            else:
                ok = k == pk and (res == sig) is True and (sig == res) is True
            ok = ok and res.return_annotation == sig.return_annotation
        if not ok:
            bad.append({'law': law, 'sig': show(s), 'got': alg.sig_str(res) if status == 'ok' else repr(res)})
    for d in bad:
        st.violation('merge-law', case, d, {'law': d['law']})
    return bad or None


HIST_SHAPES = {
    's': (('a', space.POK, False), ('c', space.KWO, True), ('d', space.KWO, True)),
    't': (('a', space.POK, False), ('b', space.POK, True)),
    'u': (('a', space.POK, False), ('args', VA, False), ('c', space.KWO, True), ('kwargs', VK, False)),
}


def history_world():
    return dict((k, alg.fresh_sig(v)) for k, v in HIST_SHAPES.items())


def history_ops():
    ops = []
    for k in sorted(HIST_SHAPES):
        ops.append(('merge(%s)' % k, lambda w, k=k: S.merge(w[k])))
        ops.append(('merge(%s, %s)' % (k, k), lambda w, k=k: S.merge(w[k], w[k])))
        ops.append(('apply_params(%s, *sort_params(%s))' % (k, k), lambda w, k=k: S.apply_params(w[k], *S.sort_params(w[k]))))
        ops.append(('mask(%s, 0, "c")' % k, lambda w, k=k: S.mask(w[k], 0, 'c')))
        ops.append(('mask(%s, 1)' % k, lambda w, k=k: S.mask(w[k], 1)))
        for j in sorted(HIST_SHAPES):
            if j != k:
                ops.append(('merge(%s, %s)' % (k, j), lambda w, k=k, j=j: S.merge(w[k], w[j])))
                ops.append(('forwards(%s, %s, 0, "c")' % (j, k), lambda w, k=k, j=j: S.forwards(w[j], w[k], 0, 'c')))
    return ops


def shard(tier, sh):
    name, i0, i1 = sh
    if name == 'history':
        from vf import reuse
        st = runner.Stats()
        reuse.pairs(history_world, history_ops(), st, {'op': 'history'}, 'merge-law')
        return st
    kind, names, nmax, first, other = slices(tier)[name]
    alpha = c01.alphabet(names, nmax)
    st = runner.Stats()
    for a in first[i0:i1]:
        if kind == 'pairs':
            for b in other:
                if not (name_aligned((a, b)) and space.position_consistent((a, b))):
                    continue
                st.inc('states')
                eval_pair(alpha, a, b, st)
                if len(a) > 1 and len(b) > 1:
                    st.sample({'slice': name, 'inputs': [show(a), show(b)]}, 2)
        elif kind == 'triples':
            for b, c in itertools.product(other, repeat=2):
                if not space.position_consistent((a, b, c)):
                    continue
                st.inc('states')
                eval_triple(a, b, c, st)
        else:
            st.inc('states')
            eval_laws(a, st)
    st.inc('validated', alpha.validated)
    alpha.validated = 0
    return st


def run(tier, seed):
    sl = slices(tier)
    st = runner.run_shards(__name__, 'shard', tier, shards(tier), seed)
    coverage = {
        'exhaustive': True,
        'states': st.c.get('states', 0),
        'transitions': st.c.get('transitions', 0),
        'traces_validated_against_impl': st.c.get('validated', 0),
        'evaluations': st.c.get('evaluations', 0),
        'distinct_nontrivial': len(st.distinct.get('result', ())) + len(st.distinct.get('outcome', ())),
        'rule': 'all name-aligned position-consistent pairs / position-consistent triples (a shared name is positional at the same index '
                '-- positional-only or not -- or keyword-only everywhere) of the slice universes (filtered '
                'from the full product) x whole call alphabet; every signature for the laws; distinct_nontrivial = '
                'distinct result shapes + distinct raising pairs',
        'slices': dict((k, {'kind': v[0], 'first_operands': len(v[3]), 'other_operands': len(v[4]) if v[4] else None})
                       for k, v in sl.items()),
        'bound': 'pairs k<=2 (both star-name pairs), triples k<=1, laws k<=3 (quick); pairs k<=3, triples k<=2 over {a,b}, laws k=4 (thorough)',
    }
    assumptions = [
        'binder model B replayed against CPython for every shape used',
        '"equal" in the laws is == on signatures plus identical parameter data; provenance of merge(s, s) is C08\'s',
        '"no such call exists" is decided over the finite call alphabet, which contains a witness whenever one exists '
        '(all parameter names, one foreign name, one positional more than any input can name)',
    ]
    return st, coverage, assumptions


def replay(art):
    case = art['case']
    st = runner.Stats()
    if case.get('op') == 'history':
        from vf import reuse
        reuse.pairs(history_world, [o for o in history_ops() if o[0] in (case['first'], case['second'])], st, {'op': 'history'}, 'merge-law')
        return [v['detail'] for v in st.viol] or None
    if case['op'] == 'merge-precision':
        names, nmax = case['alphabet']
        a, b = (space.from_json(x) for x in case['inputs'])
        return eval_pair(Alphabet(tuple(names), nmax), a, b, st)
    if case['op'] == 'merge3':
        a, b, c = (space.from_json(x) for x in case['inputs'])
        return eval_triple(a, b, c, st)
    return eval_laws(space.from_json(case['sig']), st)
