"""C12 -- kwoargs/posoargs/autokwoargs: advertised signature equals call behaviour.

Engine E1 with execution: every function of the universe x every selection
(kwoargs set, posoargs set) of names drawn from its parameters, its star
parameters and a foreign name, for every decorator form, decorated for real.
Oracle: an independent expected-shape function; the decorated callable is then
compared, on every call shape with distinguishable argument values, with a
*native twin* (a real ``def`` with the expected parameter list) executed by
CPython -- direct call and bound method."""
import inspect
import itertools

import sigtools
from sigtools import modifiers as M

from vf import space, runner, callsem
from vf.space import PO, POK, VA, KWO, VK, show

PROP = 'C12'


# ---------------------------------------------------------------------------
# the independent model

def expected_shape(shape, kwo, poso):
    """Shape advertised after making ``kwo`` keyword-only and ``poso``
    positional-only, or None when the selection is inadmissible.
    Keyword-only parameters: natively keyword-only ones and converted ones;
    their relative order within each group is kept (the order *between* the
    groups is not fixed by the property and is compared as a set)."""
    kwo, poso = set(kwo), set(poso)
    if kwo & poso:
        return None
    kinds = dict((p[0], p[1]) for p in shape)
    for nm in kwo:
        if kinds.get(nm) not in (POK, KWO):
            return None
    for nm in poso:
        if kinds.get(nm) not in (POK, PO):
            return None
    pos, conv, native_kwo = [], [], []
    seen_regular = False
    for name, kind, opt in shape:
        if kind == POK:
            if name in poso:
                if seen_regular:
                    return None
                pos.append((name, PO, opt))
            elif name in kwo:
                conv.append((name, KWO, opt))
            else:
                seen_regular = True
                pos.append((name, POK, opt))
        elif kind == PO:
            pos.append((name, PO, opt))
        elif kind == KWO:
            native_kwo.append((name, KWO, opt))
    out = list(pos)
    out.extend(p for p in shape if p[1] == VA)
    out.extend(native_kwo)
    out.extend(conv)
    out.extend(p for p in shape if p[1] == VK)
    return tuple(out)


def start_selection(shape, start):
    """kwoargs(start=x): x and every positional-or-keyword parameter after it; None if x is not one."""
    names = [p[0] for p in shape if p[1] == POK]
    if start not in names:
        return None
    return set(names[names.index(start):])


def end_selection(shape, end):
    names = [p[0] for p in shape if p[1] == POK]
    if end not in names:
        return None
    return set(names[:names.index(end) + 1])


def auto_selection(shape, exceptions):
    """autokwoargs(exceptions=...): every defaulted positional-or-keyword parameter not excepted;
    None (ValueError) when an exception names none of them."""
    cands = [p[0] for p in shape if p[1] == POK and p[2]]
    if set(exceptions) - set(cands):
        return None
    return set(cands) - set(exceptions)


# ---------------------------------------------------------------------------
# universes / forms

def functions(tier):
    u = [s for s in space.universe(3, 'abc') if space.name_sorted(s)]
    if tier == 'thorough':
        u = space.universe(3, 'abc') + [s for s in space.universe(4, 'abcd', min_named=4) if space.name_sorted(s)]
    return u


def selection_names(shape):
    return [p[0] for p in shape] + ['zz']


def subsets(names):
    for r in range(len(names) + 1):
        for c in itertools.combinations(names, r):
            yield c


def decorators(form, sel):
    """The decorator objects of one form, innermost first."""
    if form == 'kwo>poso':          # kwoargs applied first (inner), posoargs outside
        K, P = sel
        return [M.kwoargs(*K), M.posoargs(*P)]
    if form == 'poso>kwo':
        K, P = sel
        return [M.posoargs(*P), M.kwoargs(*K)]
    if form == 'start':
        return [M.kwoargs(start=sel)]
    if form == 'end':
        return [M.posoargs(end=sel)]
    if form == 'start+names':
        return [M.kwoargs(*sel[1], start=sel[0])]
    if form == 'end+names':
        return [M.posoargs(*sel[1], end=sel[0])]
    if form == 'kwo>end':           # kwoargs(K) first, posoargs(end=e) outside
        return [M.kwoargs(*sel[0]), M.posoargs(end=sel[1])]
    if form == 'end>kwo':
        return [M.posoargs(end=sel[1]), M.kwoargs(*sel[0])]
    if form == 'poso>start':
        return [M.posoargs(*sel[0]), M.kwoargs(start=sel[1])]
    if form == 'start>poso':
        return [M.kwoargs(start=sel[1]), M.posoargs(*sel[0])]
    if form == 'auto':
        return [M.autokwoargs]
    if form == 'auto-exc':
        return [M.autokwoargs(exceptions=list(sel))]
    raise AssertionError(form)


def decorate(form, f, shape, sel):
    """Apply one decorator form; returns the decorated object (may raise).  The decorator objects are made once and have
    already been applied to another function of the same shape: a decorator is reusable."""
    decos = decorators(form, sel)
    twin = callsem.valued_func(shape, annotate=True)
    try:
        for d in decos:
            twin = d(twin)
    except Exception:  # noqa: whatever the first application did, the second is judged on its own
        pass
    for d in decos:
        f = d(f)
    return f


def model(form, shape, sel):
    """Expected shape or None (ValueError at decoration)."""
    if form == 'kwo>poso':
        K, P = sel
        if expected_shape(shape, K, ()) is None:
            return None
        return expected_shape(shape, K, P)
    if form == 'poso>kwo':
        K, P = sel
        if expected_shape(shape, (), P) is None:
            return None
        return expected_shape(shape, K, P)
    if form == 'start':
        s = start_selection(shape, sel)
        return None if s is None else expected_shape(shape, s, ())
    if form == 'end':
        s = end_selection(shape, sel)
        return None if s is None else expected_shape(shape, (), s)
    if form == 'start+names':
        s = start_selection(shape, sel[0])
        return None if s is None else expected_shape(shape, s | set(sel[1]), ())
    if form == 'end+names':
        s = end_selection(shape, sel[0])
        return None if s is None else expected_shape(shape, (), s | set(sel[1]))
    if form in ('kwo>end', 'end>kwo', 'poso>start', 'start>poso'):
        names, anchor = sel
        first_names = form in ('kwo>end', 'poso>start')
        kw_names = form in ('kwo>end', 'end>kwo')

        def step_names(sh):
            return expected_shape(sh, names, ()) if kw_names else expected_shape(sh, (), names)

        def step_anchor(sh):
            if kw_names:        # the anchored step is posoargs(end=)
                sel_ = end_selection(sh, anchor)
                return None if sel_ is None else expected_shape(sh, (), sel_)
            sel_ = start_selection(sh, anchor)
            return None if sel_ is None else expected_shape(sh, sel_, ())
        sh1 = step_names(shape) if first_names else step_anchor(shape)
        if sh1 is None:
            return None
        return step_anchor(sh1) if first_names else step_names(sh1)
    if form == 'auto':
        return expected_shape(shape, auto_selection(shape, ()), ())
    if form == 'auto-exc':
        s = auto_selection(shape, sel)
        return None if s is None else expected_shape(shape, s, ())
    raise AssertionError(form)


def cases(shape):
    names = selection_names(shape)
    for K in subsets(names):
        for P in subsets(names):
            yield 'kwo>poso', (K, P)
            if K and P:
                yield 'poso>kwo', (K, P)
    for nm in names:
        yield 'start', nm
        yield 'end', nm
        for other in names:
            if other != nm:
                yield 'start+names', (nm, (other,))
                yield 'end+names', (nm, (other,))
    for nm in names:
        for other in names:
            if other != nm:
                for form in ('kwo>end', 'end>kwo', 'poso>start', 'start>poso'):
                    yield form, ((other,), nm)
    yield 'auto', None
    for E in subsets(names):
        if E:
            yield 'auto-exc', E


# ---------------------------------------------------------------------------
# oracle

def sig_matches(sig, exp, annotated=True):
    """Does ``sig`` advertise ``exp`` (positional part exact, keyword-only part as a set with relative
    order kept inside the native and the converted group), defaults 'd_<name>', annotations 'A_<name>'?"""
    got = callsem.param_tuple(sig)
    want = [(n, k, ('d_' + n) if o else '<empty>', ('A_' + n) if annotated else '<empty>') for n, k, o in exp]
    if len(got) != len(want):
        return False

    def split(lst):
        return [x for x in lst if x[1] != KWO], [x for x in lst if x[1] == KWO]
    gp, gk = split(got)
    wp, wk = split(want)
    if gp != wp or sorted(gk) != sorted(wk):
        return False
    # position of the keyword-only block
    kinds = [x[1] for x in got]
    return kinds == sorted(kinds)


def kwo_order_ok(sig, shape, exp):
    """Relative order kept: among converted parameters (source order) and among native ones."""
    got = [p.name for p in sig.parameters.values() if p.kind == p.KEYWORD_ONLY]
    native = [p[0] for p in shape if p[1] == KWO]
    conv = [p[0] for p in shape if p[1] == POK and (p[0], KWO, p[2]) in exp]
    return [n for n in got if n in native] == native and [n for n in got if n in conv] == conv


def safe_sig(obj):
    try:
        return inspect.signature(obj)
    except Exception:  # noqa
        return None


_CALLS = {}


REANNOTATE_FORMS = ('kwo>poso', 'poso>kwo', 'auto', 'start', 'end')


def calls_for(shape):
    names = tuple(p[0] for p in shape) + ('zz',)
    npos = sum(1 for p in shape if p[1] in (PO, POK))
    key = (names, npos)
    if key not in _CALLS:
        _CALLS[key] = callsem.call_list(names, npos + 1)
    return _CALLS[key]


def eval_case(shape, form, sel, st, replaying=False):
    f = callsem.valued_func(shape, annotate=True, cache=False)
    exp = model(form, shape, sel)
    case = {'shape': space.to_json(shape), 'form': form, 'selection': sel}
    base = {'function': 'def f' + show(shape), 'form': form, 'selection': repr(sel)}
    try:
        g = decorate(form, f, shape, sel)
        raised = None
    except ValueError as e:
        g, raised = None, e
    except Exception as e:  # noqa: classified below
        st.violation('decoration-raises-non-ValueError', case, dict(base, error='%s: %s' % (type(e).__name__, e)), {'form': form})
        return
    st.inc('transitions')
    if exp is None:
        st.inc('inadmissible')
        if raised is None:
            st.violation('inadmissible-selection-accepted', case,
                         dict(base, advertised=str(inspect.signature(g))), {'form': form})
        return
    if raised is not None:
        st.violation('admissible-selection-rejected', case, dict(base, error=str(raised), expected=show(exp)), {'form': form})
        return
    st.inc('admissible')
    st.seen('result', (shape, exp))
    # advertised signature, both retrieval routes
    for route, getter in (('inspect.signature', inspect.signature), ('sigtools.signature', sigtools.signature)):
        try:
            sig = getter(g)
        except Exception as e:  # noqa
            st.violation('signature-retrieval-raises', case, dict(base, route=route, error='%s: %s' % (type(e).__name__, e)), {'form': form})
            return
        if not sig_matches(sig, exp) or not kwo_order_ok(sig, shape, exp):
            st.violation('advertised-signature-wrong', case,
                         dict(base, route=route, advertised=str(sig), expected=show(exp)), {'form': form, 'route': route})
            return
    # call behaviour against the native twin
    twin = callsem.valued_func(exp)
    n_calls = 0
    for a, k in calls_for(shape):
        if callsem.po_by_keyword(exp, k):
            continue
        n_calls += 1
        want = callsem.run_call(twin, a, k)
        got = callsem.run_call(g, a, k)
        if not callsem.same_outcome(want, got):
            st.violation('call-behaviour-differs-from-advertised-signature', case,
                         dict(base, advertised=show(exp), call=callsem.describe_call(a, k),
                              native_twin=repr(want)[:300], decorated=repr(got)[:300], placement='direct'),
                         {'form': form, 'placement': 'direct'})
            return
    st.inc('evaluations', n_calls)
    # annotate on top re-prepares the translator: the advertised parameters and the call behaviour stay what they were
    if g is not f and form in REANNOTATE_FORMS:
        try:
            g2 = M.annotate('R')(g)
            sig2 = inspect.signature(g2)
        except Exception as e:  # noqa
            st.violation('signature-retrieval-raises', case, dict(base, route='annotate on top', error='%s: %s' % (type(e).__name__, e)),
                         {'form': form, 'route': 'reannotated'})
            return
        if not sig_matches(sig2, exp) or sig2.return_annotation != 'R':
            st.violation('advertised-signature-wrong', case,
                         dict(base, route='annotate on top', advertised=str(sig2), expected=show(exp) + " -> 'R'"),
                         {'form': form, 'route': 'reannotated'})
            return
        n2 = 0
        for a, k in calls_for(shape):
            if callsem.po_by_keyword(exp, k):
                continue
            n2 += 1
            want = callsem.run_call(twin, a, k)
            got = callsem.run_call(g2, a, k)
            if not callsem.same_outcome(want, got):
                st.violation('call-behaviour-differs-from-advertised-signature', case,
                             dict(base, advertised=show(exp), call=callsem.describe_call(a, k),
                                  native_twin=repr(want)[:300], decorated=repr(got)[:300], placement='after annotate on top'),
                             {'form': form, 'placement': 'reannotated'})
                return
        st.inc('evaluations', n2)
        st.inc('reannotated_cases')
    # stacking must leave the inner decorated object as it was: decorate again, keep the inner one, stack, re-check it
    if form in ('kwo>poso', 'poso>kwo') and sel[0] and sel[1]:
        f2 = callsem.valued_func(shape, annotate=True, cache=False)
        first, second = (M.kwoargs(*sel[0]), M.posoargs(*sel[1])) if form == 'kwo>poso' else (M.posoargs(*sel[1]), M.kwoargs(*sel[0]))
        inner = first(f2)
        inner_exp = expected_shape(shape, sel[0], ()) if form == 'kwo>poso' else expected_shape(shape, (), sel[1])
        outer_obj = second(inner)
        holder2 = type('H2', (object,), {'m': outer_obj})
        try:
            holder2().m         # binding the stacked object must not disturb the inner one either
        except Exception:  # noqa: first parameter named in the selection
            pass
        if inner is not f2 and inner_exp is not None:
            isig = safe_sig(inner)
            if isig is None or not sig_matches(isig, inner_exp):
                st.violation('stacking-changes-the-inner-decorated-object', case,
                             dict(base, inner_advertised=str(isig), inner_expected=show(inner_exp)), {'form': form})
                return
            twin_i = callsem.valued_func(inner_exp)
            for a, k in calls_for(shape):
                if callsem.po_by_keyword(inner_exp, k):
                    continue
                want, got = callsem.run_call(twin_i, a, k), callsem.run_call(inner, a, k)
                if not callsem.same_outcome(want, got):
                    st.violation('stacking-changes-the-inner-decorated-object', case,
                                 dict(base, inner_advertised=show(inner_exp), call=callsem.describe_call(a, k),
                                      native_twin=repr(want)[:200], inner_object=repr(got)[:200]), {'form': form})
                    return
    # bound method: only when the first parameter is a positional one the selection leaves alone
    first = shape[0] if shape else None
    if g is not f and first and first[1] in (PO, POK) and not first[2] and exp and exp[0][0] == first[0] and not _names_first(form, sel, first[0]):
        # instances compare equal by value: a bound copy made for one must not serve another
        holder = type('H', (object,), {'m': g, 't': twin, '__eq__': lambda self, other: type(other) is type(self),
                                       '__hash__': lambda self: 7})
        earlier = holder()
        try:
            earlier.m
        except Exception:  # noqa: judged on the instance below
            pass
        inst = holder()
        try:
            bsig = inspect.signature(inst.m)
            ssig = sigtools.signature(inst.m)
        except Exception as e:  # noqa
            feat = {'form': form}
            if form in ('kwo>end', 'end>kwo', 'poso>start', 'start>poso') and isinstance(e, ValueError):
                feat = {'cause': 'stacked-start-end-rebinding'}
            st.violation('signature-retrieval-raises', case, dict(base, route='bound', error='%s: %s' % (type(e).__name__, e)), feat)
            return
        if not sig_matches(bsig, exp[1:]) or not sig_matches(ssig, exp[1:]):
            st.violation('advertised-signature-wrong', case,
                         dict(base, route='bound method', advertised=str(bsig), advertised_sigtools=str(ssig), expected=show(exp[1:])),
                         {'form': form, 'route': 'bound'})
            return
        nb = 0
        for a, k in calls_for(shape):
            if len(a) > len(calls_for(shape)[-1][0]) - 1 or first[0] in k:
                continue
            if callsem.po_by_keyword(exp, k):
                continue
            nb += 1
            want = callsem.run_call(inst.t, a, k)
            got = callsem.run_call(inst.m, a, k)
            if got[0] == 'ok' and isinstance(got[1], dict) and got[1].get(first[0]) is not inst:
                st.violation('call-behaviour-differs-from-advertised-signature', case,
                             dict(base, advertised=show(exp), call=callsem.describe_call(a, k), placement='bound method',
                                  problem='the method ran with another (equal-comparing) instance as %s' % first[0]),
                             {'form': form, 'placement': 'bound-identity'})
                return
            if not callsem.same_outcome(want, got):
                st.violation('call-behaviour-differs-from-advertised-signature', case,
                             dict(base, advertised=show(exp), call=callsem.describe_call(a, k),
                                  native_twin=repr(want)[:300], decorated=repr(got)[:300], placement='bound method'),
                             {'form': form, 'placement': 'bound'})
                return
        st.inc('evaluations', nb)
        st.inc('bound_cases')


def _names_first(form, sel, name):
    """Does the *written* selection name the first parameter (the instance)?  Sets computed by the start=/end=/auto
    forms are recomputed on the bound method and may legitimately cover it."""
    if form in ('kwo>poso', 'poso>kwo'):
        return name in sel[0] or name in sel[1]
    if form in ('start', 'end'):
        return sel == name
    if form in ('start+names', 'end+names'):
        return sel[0] == name or name in sel[1]
    if form in ('kwo>end', 'end>kwo', 'poso>start', 'start>poso'):
        return name in sel[0] or sel[1] == name
    if form == 'auto-exc':
        return name in sel
    return False


def shard(tier, sh):
    i0, i1 = sh
    st = runner.Stats()
    fs = functions(tier)
    for shape in fs[i0:i1]:
        st.inc('states')
        for form, sel in cases(shape):
            eval_case(shape, form, sel, st)
        if len(shape) >= 3:
            st.sample({'function': 'def f' + show(shape), 'selections': sum(1 for _ in cases(shape))}, 2)
    return st


def run(tier, seed):
    fs = functions(tier)
    per = 4 if tier == 'quick' else 8
    shards = [(i, min(len(fs), i + per)) for i in range(0, len(fs), per)]
    st = runner.run_shards(__name__, 'shard', tier, shards, seed)
    coverage = {
        'exhaustive': True,
        'states': st.c.get('transitions', 0),
        'transitions': st.c.get('evaluations', 0),
        'traces_validated_against_impl': st.c.get('evaluations', 0),
        'evaluations': st.c.get('evaluations', 0),
        'distinct_nontrivial': len(st.distinct.get('result', ())),
        'functions': len(fs),
        'rule': 'states = (function, decorator form, selection) cases decorated for real; transitions = calls executed on '
                'the decorated callable, each compared with a native twin def executed by CPython (that comparison is the '
                'conformance replay of the expected-shape model: traces_validated_against_impl); forms: stacked '
                'kwoargs/posoargs in both orders over every pair of subsets of parameter names + star names + a foreign '
                'name, start=, end= (alone and with one extra name), autokwoargs, autokwoargs(exceptions=every non-empty '
                'subset); direct call and bound method; distinct_nontrivial = distinct (function, advertised shape) pairs '
                'among admissible cases',
        'bound': 'quick: name-sorted functions with <=3 named parameters over {a,b,c}; thorough: every order of <=3 plus '
                 'name-sorted 4-parameter functions over {a,b,c,d}; calls: 0..P+1 positionals x every subset of '
                 'parameter names + star names + zz',
    }
    assumptions = [
        'keyword-only order between natively keyword-only and converted parameters is not fixed by the property; it is compared as a set with the relative order inside each group kept',
        'bound-method behaviour is checked when the first parameter is a required positional one that the written selection does not name (naming self itself is outside the property); sets computed by start=/end= may cover it',
        'calls naming a positional-only parameter by keyword next to **kwargs are excluded (version dependent)',
    ]
    return st, coverage, assumptions


def replay(art):
    c = art['case']
    sel = c['selection']

    def tup(x):
        return tuple(tup(i) for i in x) if isinstance(x, list) else x
    st = runner.Stats()
    eval_case(space.from_json(c['shape']), c['form'], tup(sel), st, replaying=True)
    return runner.fresh_details('C12', st) or None
