"""C10 -- defaults, annotations and kinds of combined parameters follow the stated rules.

Engine E1 over the universe extended with distinguishable default values and
annotation values.  "Stands for" is used only where it is unambiguous
(DESIGN.md Appendix A): merge on role-consistent inputs (by positional index /
by keyword name) and embed / forwards / mask on inputs with disjoint named
parameters (by name)."""
import inspect
import itertools

from sigtools import signatures as S

from vf import space, alg, runner
from vf.space import PO, POK, VA, KWO, VK, show, shape_of, role_consistent

PROP = 'C10'
E = inspect.Parameter.empty
# 2.5 compiled twice gives two equal objects that are not the same object (small ints and None are shared)
DEFAULTS = (1, 2.5, None)
ANNS = (E, 'A', 'B')
_CACHE = {}


def make_sig(shape, defaults, anns, tag):
    """UpgradedSignature of a real function: defaults / anns map a parameter name to a value (others: 1 / none)."""
    key = (shape, tuple(sorted(defaults.items())), tuple(sorted((k, repr(v)) for k, v in anns.items())), tag)
    if key in _CACHE:
        return _CACHE[key]
    d = dict((p[0], repr(defaults.get(p[0], 1))) for p in shape if p[2])
    a = dict((n, repr(v)) for n, v in anns.items() if v is not E)
    f = space.make_func(shape, defaults=d, annotations=a, name='f_' + tag, cache=False)
    sig = S.signature(f)
    if len(_CACHE) > 50000:
        _CACHE.clear()
    _CACHE[key] = sig
    return sig


def positional(sig):
    return [p for p in sig.parameters.values() if p.kind in (p.POSITIONAL_ONLY, p.POSITIONAL_OR_KEYWORD)]


def contributors(res_param, res_index, inputs, by_name=False):
    """Input parameters a result parameter of a merge stands for: by name on name-aligned inputs, by positional index /
    keyword name on role-consistent ones."""
    if by_name:
        return [s.parameters[res_param.name] for s in inputs if res_param.name in s.parameters
                and s.parameters[res_param.name].kind not in (inspect.Parameter.VAR_POSITIONAL, inspect.Parameter.VAR_KEYWORD)]
    out = []
    for s in inputs:
        if res_index is not None:
            pos = positional(s)
            if res_index < len(pos):
                out.append(pos[res_index])
                continue
        q = s.parameters.get(res_param.name)
        if q is not None and q.kind in (q.POSITIONAL_OR_KEYWORD, q.KEYWORD_ONLY) and res_index is None:
            out.append(q)
    return out


def kind_ok(orig, new):
    return new == orig or (orig == inspect.Parameter.POSITIONAL_OR_KEYWORD and new in (
        inspect.Parameter.POSITIONAL_ONLY, inspect.Parameter.KEYWORD_ONLY))


def fold_ann(values):
    acc = values[0]
    for v in values[1:]:
        if acc is E:
            acc = v
        elif v is E or v == acc:
            pass
        else:
            acc = E
    return acc


def order_problem(inputs, res):
    """Positional parameters keep the relative order they have in each input (by name)."""
    rnames = [p.name for p in positional(res)]
    for s in inputs:
        inames = [p.name for p in positional(s)]
        if len(set(inames)) != len(inames) or len(set(rnames)) != len(rnames):
            continue
        common_r = [n for n in rnames if n in inames]
        common_i = [n for n in inames if n in rnames]
        if common_r != common_i:
            return {'input': str(s), 'order_in_input': common_i, 'order_in_result': common_r}
    return None


def check_merge(inputs, res, viol, by_name=False):
    pos = positional(res)
    bad = order_problem(inputs, res)
    if bad:
        viol('positional-order', bad, {'rule': 'relative-order'})
        return
    for p in res.parameters.values():
        if p.kind in (p.VAR_POSITIONAL, p.VAR_KEYWORD):
            continue
        idx = pos.index(p) if p in pos else None
        cs = contributors(p, idx, inputs, by_name)
        if not cs:
            viol('parameter-from-nowhere', {'parameter': str(p)}, {})
            return
        if p.default is not E and any(c.default is E for c in cs):
            viol('optional-although-a-contributor-is-required', {'parameter': str(p), 'contributors': [str(c) for c in cs]}, {})
            return
        if p.default is not E:
            vals = [c.default for c in cs]
            want = vals[0] if all(v == vals[0] and type(v) is type(vals[0]) for v in vals) else None
            if not (p.default == want and type(p.default) is type(want)):
                viol('default-rule', {'parameter': str(p), 'contributors': [str(c) for c in cs], 'expected_default': repr(want)}, {})
                return
        anns = [c.annotation for c in cs if c.annotation is not E]
        want = anns[0] if anns and all(a == anns[0] for a in anns) else E
        if p.annotation != want and not (p.annotation is E and want is E):
            cause = 'other'
            if len(inputs) > 2 and p.annotation == fold_ann([c.annotation for c in cs]):
                cause = 'fold-forgets-earlier-conflict'
            viol('annotation-rule', {'parameter': str(p), 'contributors': [str(c) for c in cs],
                                     'expected_annotation': 'none' if want is E else repr(want)}, {'cause': cause})
            return
        for c in cs:
            if not kind_ok(c.kind, p.kind):
                viol('kind-rule', {'parameter': str(p), 'contributor': str(c), 'from': str(c.kind), 'to': str(p.kind)}, {})
                return
        if idx is not None and p.name not in [c.name for c in cs]:
            viol('positional-order', {'parameter': str(p), 'index': idx, 'contributors': [str(c) for c in cs]}, {})
            return


def check_by_name(outer, inner, res, viol, outer_first=True):
    """embed / forwards / mask on disjointly named inputs: every result parameter is outer's or inner's by name."""
    bad = order_problem([x for x in (outer, inner) if x is not None], res)
    if bad:
        viol('positional-order', bad, {'rule': 'relative-order'})
        return
    seen_inner = {'pos': False, 'kwo': False}
    params = list(res.parameters.values())
    for i, p in enumerate(params):
        if p.kind in (p.VAR_POSITIONAL, p.VAR_KEYWORD):
            continue
        origin = 'outer' if p.name in outer.parameters else ('inner' if inner is not None and p.name in inner.parameters else None)
        if origin is None:
            viol('parameter-from-nowhere', {'parameter': str(p)}, {})
            return
        q = (outer if origin == 'outer' else inner).parameters[p.name]
        if not kind_ok(q.kind, p.kind):
            viol('kind-rule', {'parameter': str(p), 'original': str(q), 'from': str(q.kind), 'to': str(p.kind)}, {})
            return
        if p.annotation != q.annotation:
            viol('annotation-rule', {'parameter': str(p), 'original': str(q)}, {'cause': 'by-name'})
            return
        if p.default is not E and (q.default is E or p.default != q.default):
            viol('default-rule', {'parameter': str(p), 'original': str(q)}, {})
            return
        if p.default is E and q.default is not E:
            # dropped default: only an outer one, only when a required inner positional parameter follows
            follows = any(r.kind in (r.POSITIONAL_ONLY, r.POSITIONAL_OR_KEYWORD) and r.default is E and inner is not None
                          and r.name in inner.parameters for r in params[i + 1:])
            if origin != 'outer' or not follows or p.kind == p.KEYWORD_ONLY:
                viol('default-dropped-without-cause', {'parameter': str(p), 'original': str(q), 'origin': origin}, {})
                return
        grp = 'kwo' if p.kind == p.KEYWORD_ONLY else 'pos'
        if origin == 'inner':
            seen_inner[grp] = True
        elif seen_inner[grp] and outer_first:
            viol('outer-parameter-after-inner', {'parameter': str(p), 'kind_group': grp}, {})
            return


# ---------------------------------------------------------------------------

def base_shapes():
    return [s for s in space.universe(2, 'ab') if space.name_sorted(s)]


def assignments(shared_opt_l, shared_opt_r):
    """(dl, dr, al, ar) for one shared name."""
    dls = DEFAULTS if shared_opt_l else (None,)
    drs = DEFAULTS if shared_opt_r else (None,)
    for dl in dls:
        for dr in drs:
            for al in ANNS:
                for ar in ANNS:
                    yield dl, dr, al, ar


def eval_merge_pair(l, r, st):
    kl, kr = dict((p[0], p[1]) for p in l), dict((p[0], p[1]) for p in r)
    # by name: the same name never sits at two different positional indexes, and is never positional-only on
    # one side while keyword-only on the other (those are unrelated parameters)
    aligned = space.name_aligned([l, r]) and not any(
        n in kr and {kl[n], kr[n]} == {PO, KWO} for n in kl)
    if not (aligned or role_consistent([l, r])):
        return
    shared = [n for n in space.names_of(l) if n in space.names_of(r) and dict((p[0], p[1]) for p in l)[n] in (PO, POK, KWO)]
    # positions matched by index under different names also stand for each other
    lp, rp = space.positionals(l), space.positionals(r)
    matched = [(a[0], b[0]) for a, b in zip(lp, rp)] + [(n, n) for n in shared if n not in [p[0] for p in lp]]
    if aligned:
        matched = [(n, n) for n in shared]
    if not matched:
        return
    st.inc('states')
    for ln, rn in matched:
        lo = dict((p[0], p[2]) for p in l)[ln]
        ro = dict((p[0], p[2]) for p in r)[rn]
        for dl, dr, al, ar in assignments(lo, ro):
            sl = make_sig(l, {ln: dl} if lo else {}, {ln: al}, 'L')
            sr = make_sig(r, {rn: dr} if ro else {}, {rn: ar}, 'R')
            status, res = alg.outcome(S.merge, sl, sr)
            st.inc('transitions')
            if status != 'ok':
                continue
            st.seen('result', (l, r, alg.params_key(res)))

            def viol(kind, detail, feat, sl=sl, sr=sr, res=res):
                st.violation(kind, {'op': 'merge', 'inputs': [space.to_json(l), space.to_json(r)]},
                             dict(detail, inputs=[str(sl), str(sr)], result=str(res)), dict(feat, arity=2))
            check_merge([sl, sr], res, viol, by_name=aligned)
            if al is not E or ar is not E:
                # the same rules when an input is a plain inspect.Signature carrying the annotations
                import warnings
                with warnings.catch_warnings():
                    warnings.simplefilter('ignore')
                    for pl_, pr_, how in ((alg.downgrade(sl), alg.downgrade(sr), 'both plain'), (sl, alg.downgrade(sr), 'right plain')):
                        status2, res2 = alg.outcome(S.merge, pl_, pr_)
                        st.inc('transitions')
                        if status2 != 'ok':
                            continue

                        def viol2(kind, detail, feat, res2=res2, how=how):
                            st.violation(kind, {'op': 'merge', 'inputs': [space.to_json(l), space.to_json(r)]},
                                         dict(detail, inputs=[str(sl), str(sr)], plain_inputs=how, result=str(res2)), dict(feat, arity=2, plain=how))
                        check_merge([sl, sr], res2, viol2, by_name=aligned)


def merge_pairs_shard(tier, sh):
    i0, i1 = sh
    st = runner.Stats()
    shapes = base_shapes()
    for l in shapes[i0:i1]:
        for r in shapes:
            eval_merge_pair(l, r, st)
        st.sample({'slice': 'merge pairs', 'left': show(l)}, 1)
    return st


def merge_triples_shard(tier, sh):
    i0, i1 = sh
    st = runner.Stats()
    shapes = [s for s in space.universe(1, 'a')]
    for l in shapes[i0:i1]:
        for m in shapes:
            for r in shapes:
                trio = (l, m, r)
                if not role_consistent(trio):
                    continue
                named = [[p for p in s if p[1] in (PO, POK, KWO)] for s in trio]
                if not all(named):
                    continue
                st.inc('states')
                opts = [n[0][2] for n in named]
                plans = [((None, None, None), anns) for anns in itertools.product(ANNS, repeat=3)]
                if all(opts):
                    plans += [(ds, (E, E, E)) for ds in itertools.product(DEFAULTS, repeat=3)]
                for ds, anns in plans:
                    sigs = [make_sig(s, {'a': ds[i]} if opts[i] and ds[i] is not None or (opts[i] and ds != (None, None, None)) else {},
                                     {'a': anns[i]}, 'T%d' % i) for i, s in enumerate(trio)]
                    for form in ('flat', 'nested'):
                        if form == 'flat':
                            status, res = alg.outcome(S.merge, *sigs)
                        else:
                            status, res = alg.outcome(lambda: S.merge(S.merge(sigs[0], sigs[1]), sigs[2]))
                        st.inc('transitions')
                        if status != 'ok':
                            continue
                        st.seen('result', (trio, alg.params_key(res)))

                        def viol(kind, detail, feat, sigs=sigs, res=res, form=form):
                            st.violation(kind, {'op': 'merge3', 'inputs': [space.to_json(s) for s in trio]},
                                         dict(detail, inputs=[str(s) for s in sigs], result=str(res), form=form), dict(feat, arity=3))
                        check_merge(sigs, res, viol)
    return st


def embed_shard(tier, sh):
    i0, i1 = sh
    st = runner.Stats()
    outs = [s for s in base_shapes()]
    inns = [s for s in space.universe(2, 'xy')]
    if tier == 'quick':
        inns = [s for s in inns if space.name_sorted(s)]
    for o in outs[i0:i1]:
        so = make_sig(o, dict((p[0], 'd_' + p[0]) for p in o), dict((p[0], 'A_' + p[0]) for p in o if p[1] in (PO, POK, KWO)), 'O')
        for i in inns:
            si = make_sig(i, dict((p[0], 'd_' + p[0]) for p in i), dict((p[0], 'A_' + p[0]) for p in i if p[1] in (PO, POK, KWO)), 'I')
            st.inc('states')
            cases = []
            for uva, uvk in ((True, True), (True, False), (False, True)):
                cases.append(('embed', lambda uva=uva, uvk=uvk: S.embed(so, si, use_varargs=uva, use_varkwargs=uvk), None))
            kw = space.kwpass(i)
            for n in (0, 1):
                for names in [()] + [(k,) for k in kw]:
                    cases.append(('forwards', lambda n=n, names=names: S.forwards(so, si, n, *names), (n, names)))
                    cases.append(('mask', lambda n=n, names=names: S.mask(si, n, *names), (n, names)))
            for opn, fn, arg in cases:
                status, res = alg.outcome(fn)
                st.inc('transitions')
                if status != 'ok':
                    continue
                st.seen('result', (opn, o, i, alg.params_key(res)))

                def viol(kind, detail, feat, res=res, opn=opn, arg=arg):
                    st.violation(kind, {'op': opn, 'inputs': [space.to_json(o), space.to_json(i)], 'arg': repr(arg)},
                                 dict(detail, operation=opn, arguments=repr(arg), outer=str(so), inner=str(si), result=str(res)),
                                 dict(feat, op=opn))
                if opn == 'mask':
                    check_by_name(si, None, res, viol)
                else:
                    check_by_name(so, si, res, viol)
        st.sample({'slice': 'embed/forwards/mask', 'outer': str(so)}, 1)
    return st


def partial_shard(tier, sh):
    import functools
    st = runner.Stats()
    for shape in [s_ for s_ in space.universe(3, 'abc') if space.name_sorted(s_)]:
        f = space.make_func(shape, defaults=dict((p[0], repr('d_' + p[0])) for p in shape if p[2]), cache=False)
        orig = inspect.signature(f)
        npos = len(space.positionals(shape))
        for nm in space.kwpass(shape) + (['zz'] if space.has(shape, VK) else []):
            for n in range(0, min(npos, 2) + 1):
                st.inc('states')
                st.inc('transitions')
                p = functools.partial(f, *([0] * n), **{nm: ('bound', nm)})
                status, sig = alg.outcome(S.signature, p)
                if status == 'other':
                    st.violation('partial-keyword-rule', {'op': 'partial', 'shape': space.to_json(shape), 'name': nm, 'n': n},
                                 {'function': 'def f' + show(shape), 'bound_positionals': n, 'bound_keyword': nm,
                                  'error': '%s: %s' % (type(sig).__name__, sig)}, {'exception': type(sig).__name__})
                    continue
                if status != 'ok':
                    continue
                q = sig.parameters.get(nm)
                probs = []
                if q is None or q.kind != q.KEYWORD_ONLY or q.default != ('bound', nm):
                    probs.append('bound keyword %r is not a keyword-only parameter defaulting to the bound value' % nm)
                # every other surviving parameter keeps its own default and annotation, kinds only POK -> KWO
                for r in sig.parameters.values():
                    o = orig.parameters.get(r.name)
                    if r.name == nm or o is None:
                        continue
                    if r.default != o.default or r.annotation != o.annotation or not kind_ok(o.kind, r.kind):
                        probs.append('parameter %s no longer carries its own default / annotation / kind (%s)' % (r, o))
                if probs:
                    st.violation('partial-keyword-rule', {'op': 'partial', 'shape': space.to_json(shape), 'name': nm, 'n': n},
                                 {'function': 'def f' + show(shape), 'bound_positionals': n, 'bound_keyword': nm,
                                  'result': str(sig), 'problems': probs}, {})
                st.seen('result', ('partial', shape, nm, n))
    partial_of_forwarders(st)
    return st


FWD_SRC = '''
def PF_callee(x, y='d_y', *, z='d_z'):
    return (x, y, z)


def PF_callee_po(x, y='d_y', /, *, z='d_z'):
    return (x, y, z)


def PF_w1(a, *args, **kwargs):
    return PF_callee(*args, **kwargs)


def PF_w2(*args, w='d_w', **kwargs):
    return PF_callee(*args, **kwargs)


def PF_w3(a, *args, **kwargs):
    return PF_callee_po(*args, **kwargs)


def PF_w4(a, b='d_b', **kwargs):
    return PF_callee(0, **kwargs)


def PF_chain(c, *args, **kwargs):
    return PF_w1(*args, **kwargs)
'''


def partial_of_forwarders(st):
    """partial objects over functions whose effective signature comes from discovered forwarding (real source): every
    combination of <=2 bound positionals and <=2 bound keywords, through sigtools.signature."""
    import functools
    import sigtools
    from vf import progs
    batch = progs.Batch(prelude='')
    batch.add(FWD_SRC, 10)
    batch.load()
    try:
        for wname in ('PF_w1', 'PF_w2', 'PF_w3', 'PF_w4', 'PF_chain'):
            f = batch.get(wname)
            orig = sigtools.signature(f)
            kws = [q.name for q in orig.parameters.values() if q.kind in (q.POSITIONAL_OR_KEYWORD, q.KEYWORD_ONLY)]
            npos = len([q for q in orig.parameters.values() if q.kind in (q.POSITIONAL_ONLY, q.POSITIONAL_OR_KEYWORD)])
            for n in range(0, min(npos, 2) + 1):
                for r in (1, 2):
                    for names in itertools.combinations(kws, r):
                        st.inc('states')
                        st.inc('transitions')
                        bound = dict((nm, ('bound', nm)) for nm in names)
                        p = functools.partial(f, *([0] * n), **bound)
                        case = {'op': 'partial-forwarder', 'function': wname, 'names': list(names), 'n': n}
                        base = {'function': '%s%s (as sigtools.signature reports it)' % (wname, orig), 'bound_positionals': n,
                                'bound_keywords': list(names)}
                        status, sig = alg.outcome(sigtools.signature, p)
                        if status == 'other':
                            st.violation('partial-keyword-rule', case, dict(base, error='%s: %s' % (type(sig).__name__, sig)),
                                         {'exception': type(sig).__name__})
                            continue
                        if status != 'ok':
                            continue
                        probs = []
                        for nm in names:
                            q = sig.parameters.get(nm)
                            if q is None:
                                # a positional bound before it has consumed the parameter: the call itself is impossible
                                continue
                            if q.kind != q.KEYWORD_ONLY or q.default != ('bound', nm):
                                probs.append('bound keyword %r is not a keyword-only parameter defaulting to the bound value' % nm)
                        for q in sig.parameters.values():
                            o = orig.parameters.get(q.name)
                            if q.name in names or o is None:
                                continue
                            if q.default != o.default or not kind_ok(o.kind, q.kind):
                                probs.append('parameter %s no longer carries its own default / kind (%s)' % (q, o))
                        if probs:
                            st.violation('partial-keyword-rule', case, dict(base, result=str(sig), problems=probs), {'route': 'discovery'})
                        st.seen('result', ('partial-forwarder', wname, names, n, str(sig)))
    finally:
        batch.close()


def shard(tier, sh):
    kind = sh[0]
    return {'pairs': merge_pairs_shard, 'triples': merge_triples_shard, 'embed': embed_shard, 'partial': partial_shard}[kind](tier, sh[1:])


def run(tier, seed):
    nb = len(base_shapes())
    nt = len(space.universe(1, 'a'))
    shards = [('pairs', i, min(nb, i + 2)) for i in range(0, nb, 2)]
    shards += [('triples', i, i + 1) for i in range(nt)]
    shards += [('embed', i, min(nb, i + 4)) for i in range(0, nb, 4)]
    shards += [('partial', 0, 0)]
    st = runner.run_shards(__name__, 'shard', tier, shards, seed)
    coverage = {
        'exhaustive': True,
        'states': st.c.get('states', 0),
        'transitions': st.c.get('transitions', 0),
        'traces_validated_against_impl': st.c.get('transitions', 0),
        'evaluations': st.c.get('transitions', 0),
        'distinct_nontrivial': len(st.distinct.get('result', ())),
        'rule': 'merge: every role-consistent pair of name-sorted signatures (<=2 named over {a,b}) x every matched parameter x '
                'defaults {1,2,None}^2 x annotations {none,A,B}^2; every role-consistent triple (<=1 named) x annotations^3 and '
                'defaults^3, flat and nested; embed (3 use_* settings), forwards and mask (n<=1, one name) on disjointly named '
                'pairs with a distinct default and annotation on every parameter; partial keywords. Every case runs the real '
                'operation (traces_validated_against_impl = transitions); distinct_nontrivial = distinct (inputs, result) pairs',
        'bound': 'k<=2 named parameters per operand (pairs, embed), k<=1 (triples)',
    }
    assumptions = [
        '"stands for": merge on name-aligned inputs (by name: the same name never sits at two different positional indexes) and on role-consistent inputs (positional index, keyword name); embed/forwards/mask on inputs with disjoint named parameters (by name)',
        'an outer default may disappear only when a required inner positional parameter follows it in the result',
    ]
    return st, coverage, assumptions


def replay(art):
    c = art['case']
    st = runner.Stats()
    if c['op'] == 'merge':
        l, r = (space.from_json(x) for x in c['inputs'])
        eval_merge_pair(l, r, st)
    elif c['op'] == 'merge3':
        # the triple's first operand selects the shard
        trio = [space.from_json(x) for x in c['inputs']]
        shapes = list(space.universe(1, 'a'))
        st = merge_triples_shard('quick', (shapes.index(trio[0]), shapes.index(trio[0]) + 1))
        st.viol = [v for v in st.viol if v['case'].get('inputs') == c['inputs']]
    elif c['op'] == 'partial-forwarder':
        partial_of_forwarders(st)
        st.viol = [v for v in st.viol if v['case'] == c]
    elif c['op'] == 'partial':
        st = partial_shard('quick', (0, 0))
        st.viol = [v for v in st.viol if v['case'].get('shape') == c.get('shape') and v['case'].get('name') == c.get('name')]
    else:
        outs = base_shapes()
        o = space.from_json(c['inputs'][0])
        st = embed_shard('thorough', (outs.index(o), outs.index(o) + 1))
        st.viol = [v for v in st.viol if v['case'].get('inputs') == c['inputs'] and v['case'].get('op') == c['op']]
    return runner.fresh_details('C10', st) or None
