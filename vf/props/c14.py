"""C14 -- returned signatures are drop-in inspect.Signature objects.

Engine E2 + E1: every state reached by the algebra BFS (vf/terms.py) and every
retrieval / combination result over an annotated universe (eager and postponed
annotations, return annotations) is compared with the plain inspect.Signature
built from the same data: str, bind, bind_partial on the call alphabet,
replace(), and the ==, != and hash laws against a menagerie of partners."""
import inspect
import itertools

import sigtools
from sigtools import signatures as S, _signatures as _S

from vf import space, alg, runner, terms, callsem
from vf.space import PO, POK, VA, KWO, VK, show

PROP = 'C14'
_HEAVY_SEEN = set()
E = inspect.Parameter.empty


def plain_param(p, **over):
    d = dict(name=p.name, kind=p.kind, default=p.default, annotation=p.annotation)
    d.update(over)
    return inspect.Parameter(d.pop('name'), d.pop('kind'), **d)


def plain_of(sig, **over):
    params = [plain_param(p) for p in sig.parameters.values()]
    ra = over.get('return_annotation', sig.return_annotation)
    return inspect.Signature(over.get('parameters', params), return_annotation=ra)


def safe(fn):
    try:
        return ('ok', fn())
    except Exception as e:  # noqa: compared
        return ('raise', type(e).__name__, str(e)[:200])


def bind_outcome(sig, a, k, partial):
    try:
        ba = (sig.bind_partial if partial else sig.bind)(*a, **k)
        return ('ok', tuple(ba.arguments.items()))
    except TypeError:
        return ('TypeError',)
    except Exception as e:  # noqa
        return ('raise', type(e).__name__)


def eq_checks(obj, twin_plain, changed, foreign, what, viol):
    """obj: upgraded object; twin_plain: plain object carrying the same data; changed: list of (label, object) that differ
    in one field (plain and upgraded); foreign: unrelated partners."""
    def cmp(a, b, op):
        return safe(lambda: (a == b) if op == '==' else (a != b))
    for label, partner, want in [('itself', obj, True), ('plain object with the same data', twin_plain, True)] + \
            [(lbl, c, False) for lbl, c in changed] + [(repr(f)[:30], f, False) for f in foreign]:
        for a, b, direction in ((obj, partner, 'upgraded first'), (partner, obj, 'partner first')):
            r = cmp(a, b, '==')
            r2 = cmp(a, b, '!=')
            if r[0] != 'ok' or r2[0] != 'ok':
                viol('comparison-raises', {'what': what, 'partner': label, 'direction': direction, 'eq': repr(r), 'ne': repr(r2)},
                     {'what': what})
                return
            if type(r[1]) is not bool or type(r2[1]) is not bool:
                viol('comparison-not-bool', {'what': what, 'partner': label, 'direction': direction,
                                             'eq': repr(r[1]), 'ne': repr(r2[1])}, {'what': what})
                return
            if r[1] != want or r2[1] == want:
                viol('equality-wrong', {'what': what, 'partner': label, 'direction': direction, 'eq': r[1], 'ne': r2[1],
                                        'expected_equal': want}, {'what': what, 'partner': label.split(' (')[0]})
                return
    hp = safe(lambda: hash(twin_plain))
    hu = safe(lambda: hash(obj))
    if hp[0] == 'ok' and (hu[0] != 'ok' or hu[1] != hp[1]):
        viol('hash-inconsistent', {'what': what, 'plain_hash': repr(hp), 'upgraded_hash': repr(hu)}, {'what': what})


def heavy_checks(sig, viol, st):
    """str / bind / bind_partial / equality menagerie: depend on the parameter data only."""
    pl = plain_of(sig)
    if str(sig) != str(pl):
        viol('str-differs', {'upgraded': str(sig), 'plain': str(pl)}, {})
    shape = space.shape_of(sig)
    names = tuple(dict.fromkeys([p[0] for p in shape] + ['zz']))[:7]
    npos = sum(1 for p in shape if p[1] in (PO, POK))
    n = 0
    for a, k in callsem.call_list(names, npos + 1):
        for partial in (False, True):
            n += 1
            w, g = bind_outcome(pl, a, k, partial), bind_outcome(sig, a, k, partial)
            if w != g:
                viol('bind-differs', {'signature': str(sig), 'call': callsem.describe_call(a, k), 'partial': partial,
                                      'plain': repr(w)[:200], 'upgraded': repr(g)[:200]}, {'partial': partial})
                return n
    # signature-level partners
    params = list(sig.parameters.values())
    changed = []
    if params:
        p0 = params[0]
        for lbl, over in (('default changed', dict(default=('other',))), ('annotation changed', dict(annotation='OTHER')),
                          ('name changed', dict(name=p0.name + '_'))):
            if lbl == 'default changed' and p0.kind in (p0.VAR_POSITIONAL, p0.VAR_KEYWORD):
                continue
            try:
                q = [plain_param(p0, **over)] + [plain_param(p) for p in params[1:]]
                changed.append((lbl + ' (plain)', inspect.Signature(q, return_annotation=sig.return_annotation)))
                changed.append((lbl + ' (upgraded)', sig.replace(parameters=[p0.replace(**over)] + params[1:])))
            except ValueError:
                pass
        changed.append(('one parameter less (plain)', inspect.Signature([plain_param(p) for p in params[1:]],
                                                                      return_annotation=sig.return_annotation)))
    changed.append(('return annotation changed (plain)', plain_of(sig, return_annotation='RET_OTHER')))
    changed.append(('return annotation changed (upgraded)', sig.replace(
        return_annotation='RET_OTHER', upgraded_return_annotation=_S.UpgradedAnnotation.preevaluated('RET_OTHER'))))
    foreign = [None, 0, 'x', (), object(), inspect.Parameter('zz', inspect.Parameter.KEYWORD_ONLY), NotImplemented]
    eq_checks(sig, pl, changed, foreign, 'signature ' + str(sig), viol)
    for p in params:
        pc = []
        if p.kind not in (p.VAR_POSITIONAL, p.VAR_KEYWORD):
            pc.append(('default changed (plain)', plain_param(p, default=('other',))))
            pc.append(('default changed (upgraded)', p.replace(default=('other',))))
        pc.append(('annotation changed (plain)', plain_param(p, annotation='OTHER')))
        pc.append(('annotation changed (upgraded)', p.replace(annotation='OTHER', upgraded_annotation=_S.UpgradedAnnotation.preevaluated('OTHER'))))
        pc.append(('name changed (plain)', plain_param(p, name=p.name + '_')))
        other_kind = p.KEYWORD_ONLY if p.kind != p.KEYWORD_ONLY else p.POSITIONAL_OR_KEYWORD
        if p.kind in (p.VAR_POSITIONAL, p.VAR_KEYWORD):
            other_kind = p.KEYWORD_ONLY
        try:
            pc.append(('kind changed (plain)', plain_param(p, kind=other_kind)))
            pc.append(('kind changed (upgraded)', p.replace(kind=other_kind)))
        except ValueError:
            pass
        eq_checks(p, plain_param(p), pc, [None, 'x', 0, pl], 'parameter %s of %s' % (p, sig), viol)
    return n


def light_checks(sig, viol):
    """Per state: replace() keeps the upgraded type, provenance and upgraded annotations; reflexive equality."""
    r = safe(lambda: sig.replace())
    if r[0] != 'ok':
        viol('replace-raises', {'signature': str(sig), 'error': repr(r)}, {})
        return
    r = r[1]
    if type(r) is not type(sig) or not isinstance(r, _S.UpgradedSignature):
        viol('replace-loses-type', {'signature': str(sig), 'type': type(r).__name__}, {})
        return
    if alg.src_key(r) != alg.src_key(sig) or r.upgraded_return_annotation is not sig.upgraded_return_annotation:
        viol('replace-loses-provenance-or-annotation', {'signature': str(sig), 'sources': alg.src_show(r)}, {})
    if [type(p) for p in r.parameters.values()] != [_S.UpgradedParameter] * len(r.parameters):
        viol('replace-loses-type', {'signature': str(sig), 'parameters': [type(p).__name__ for p in r.parameters.values()]}, {})
    # parameters may be given as any iterable, as for inspect.Signature
    it = safe(lambda: sig.replace(parameters=(p for p in sig.parameters.values())))
    if it[0] != 'ok' or list(it[1].parameters) != list(sig.parameters):
        viol('replace-ignores-override', {'signature': str(sig), 'what': 'parameters given as a generator',
                                          'result': str(it[1]) if it[0] == 'ok' else repr(it)}, {})
    params = list(sig.parameters.values())
    if len(params) >= 2:
        # upgraded parameters handed back together with one plain inspect.Parameter: the upgraded ones stay as they are
        import warnings
        plain_last = inspect.Parameter(params[-1].name, params[-1].kind, default=params[-1].default, annotation=params[-1].annotation)
        with warnings.catch_warnings():
            warnings.simplefilter('ignore')
            mx = safe(lambda: sig.replace(parameters=params[:-1] + [plain_last]))
        if mx[0] != 'ok' or any(q.upgraded_annotation is not p.upgraded_annotation or q.sources != p.sources
                                for p, q in zip(params[:-1], list(mx[1].parameters.values())[:-1])):
            viol('replace-loses-provenance-or-annotation',
                 {'signature': str(sig), 'what': 'replace(parameters=<upgraded ones unchanged + one plain inspect.Parameter>)',
                  'result': str(mx[1]) if mx[0] == 'ok' else repr(mx)}, {'what': 'mixed'})
    if params:
        # dropping a parameter from a copy says nothing about the signature it was copied from
        before = alg.src_key(sig)
        dropped = safe(lambda: sig.replace(parameters=params[1:]))
        again = safe(lambda: sig.replace())
        if alg.src_key(sig) != before or (again[0] == 'ok' and alg.src_key(again[1]) != before):
            viol('replace-loses-provenance-or-annotation',
                 {'signature': str(sig), 'what': 'replace(parameters=<all but the first>) changed the provenance of the signature it was called on',
                  'sources_now': alg.src_show(sig)}, {'what': 'receiver'})
    marker = {'+depths': {}, 'marker': [len]}
    r2 = safe(lambda: sig.replace(sources=marker))
    if r2[0] != 'ok' or r2[1].sources is not marker:
        viol('replace-ignores-override', {'signature': str(sig), 'what': 'sources'}, {})
    for p in sig.parameters.values():
        q = safe(lambda: p.replace())
        ne = safe(lambda: q[1] != p) if q[0] == 'ok' else ('ok', False)
        if ne[0] != 'ok':
            viol('comparison-raises', {'what': 'parameter %s vs its replace() copy' % p, 'ne': repr(ne)}, {'what': 'parameter'})
            break
        if q[0] != 'ok' or type(q[1]) is not _S.UpgradedParameter or q[1].upgraded_annotation is not p.upgraded_annotation \
                or ne[1] or q[1].sources is not p.sources:
            viol('parameter-replace-loses-data', {'signature': str(sig), 'parameter': str(p), 'result': repr(q)[:200]}, {})
            break
        # overriding one provenance field keeps the other
        mark_s, mark_d = [len], {len: 7}
        q1 = safe(lambda: p.replace(sources=mark_s))
        q2 = safe(lambda: p.replace(source_depths=mark_d))
        if q1[0] != 'ok' or q1[1].sources is not mark_s or q1[1].source_depths is not p.source_depths \
                or q2[0] != 'ok' or q2[1].source_depths is not mark_d or q2[1].sources is not p.sources:
            viol('parameter-replace-loses-data', {'signature': str(sig), 'parameter': str(p),
                                                 'what': 'replace(sources=...) / replace(source_depths=...) must override exactly that field',
                                                 'results': [repr(getattr(q1[1], 'source_depths', q1))[:80], repr(getattr(q2[1], 'sources', q2))[:80]]}, {})
            break
        ua = _S.UpgradedAnnotation.preevaluated('X')
        q = safe(lambda: p.replace(annotation='X', upgraded_annotation=ua))
        if q[0] != 'ok' or q[1].upgraded_annotation is not ua or q[1].annotation != 'X':
            viol('parameter-replace-ignores-override', {'signature': str(sig), 'parameter': str(p)}, {})
            break
    e = safe(lambda: (sig == sig, sig != sig, sig == r, hash(sig) == hash(r)))
    if e != ('ok', (True, False, True, True)):
        viol('equality-wrong', {'what': 'signature ' + str(sig), 'partner': 'itself / its replace() copy', 'result': repr(e)}, {'what': 'reflexive'})


# ---------------------------------------------------------------------------
# E2 hook

def state_check(sig, term, st):
    def viol(kind, detail, feat):
        st.violation(kind, {'op': 'algebra-term', 'term': term}, dict(detail, term=terms.show_term(term)), feat)
    light_checks(sig, viol)
    key = (alg.params_key(sig), alg._val_key(sig.return_annotation))
    if key not in _HEAVY_SEEN:
        _HEAVY_SEEN.add(key)
        st.inc('heavy_states')
        st.inc('evaluations', heavy_checks(sig, viol, st))


# ---------------------------------------------------------------------------
# annotated universe (eager / postponed / unresolvable), retrieval and combination results

ANN_SRC = '''
class T1: pass
class T2: pass
'''


def annotated_functions():
    """(label, function) over shapes with annotation patterns, eager and postponed."""
    out = []
    shapes = [s for s in space.universe(2, 'ab') if space.name_sorted(s)]
    for future in (False, True):
        for shape in shapes:
            names = [p[0] for p in shape]
            for pattern in ('none', 'all', 'first+return') + (('unresolvable', 'unresolvable-attr', 'unresolvable-type') if future else ()):
                ann = {}
                ret = None
                if pattern == 'all':
                    ann = dict((n, 'T1' if i % 2 == 0 else 'T2') for i, n in enumerate(names))
                    ret = 'T2'
                elif pattern == 'first+return':
                    if not names:
                        continue
                    ann = {names[0]: 'T1'}
                    ret = 'T1'
                elif pattern == 'unresolvable-attr':
                    ann = dict((n, 'T1.no_such_attribute') for n in names)     # evaluation raises AttributeError
                    ret = 'T2.neither'
                elif pattern == 'unresolvable-type':
                    ann = dict((n, 'T1[int]') for n in names)                  # evaluation raises TypeError
                    ret = '1 + T2'
                elif pattern == 'unresolvable':
                    # names that exist only for type checkers (if TYPE_CHECKING: import ...)
                    ann = dict((n, 'OnlyForTypeCheckers_') for n in names)
                    ret = 'AlsoOnlyForTypeCheckers_'
                ns = {'__name__': 'vfc14'}
                exec(ANN_SRC, ns)
                defaults = dict((p[0], repr('d_' + p[0])) for p in shape if p[2])
                src = ('from __future__ import annotations\n' if future else '') + 'def f(%s)%s:\n    pass\n' % (
                    space.render(shape, defaults, ann), (' -> ' + ret) if ret else '')
                exec(compile(src, '<vf:c14>', 'exec'), ns)
                out.append(('%s def f%s [%s]' % ('postponed' if future else 'eager', show(shape), pattern), ns['f']))
    return out


def e1_shard(tier, sh):
    i0, i1 = sh
    st = runner.Stats()
    fs = annotated_functions()
    for label, f in fs[i0:i1]:
        st.inc('states')
        for route, getter in (('sigtools.signature', sigtools.signature), ('signatures.signature', S.signature)):
            sig = getter(f)
            case = {'op': 'annotated', 'label': label, 'route': route}

            def viol(kind, detail, feat, case=case, label=label, route=route):
                st.violation(kind, case, dict(detail, function=label, route=route), feat)
            light_checks(sig, viol)
            st.inc('evaluations', heavy_checks(sig, viol, st))
            st.inc('transitions')
            # a second, distinct upgraded object carrying the same data: comparison returns a bool, whatever happens
            twin = getter(f)
            e = safe(lambda: (sig == twin, twin == sig, sig != twin))
            if e[0] != 'ok' or not all(type(x) is bool for x in e[1]) or e[1][0] != e[1][1] or e[1][0] == e[1][2]:
                viol('comparison-raises' if e[0] != 'ok' else 'equality-wrong',
                     {'what': 'signature vs a second retrieval of the same function', 'result': repr(e)[:300]}, {'what': 'upgraded twin'})
            if 'unresolvable' not in label and e[0] == 'ok' and e[1][0] is not True:
                viol('equality-wrong', {'what': 'signature vs a second retrieval of the same function', 'result': repr(e)}, {'what': 'upgraded twin'})
            for p1, p2 in zip(sig.parameters.values(), twin.parameters.values()):
                e = safe(lambda: (p1 == p2, p1 != p2))
                if e[0] != 'ok' or e[1][0] == e[1][1]:
                    viol('comparison-raises' if e[0] != 'ok' else 'equality-wrong',
                         {'what': 'parameter %s vs its twin from a second retrieval' % p1, 'result': repr(e)[:300]}, {'what': 'upgraded twin'})
                    break
            # against what inspect itself returns for the function
            ins = inspect.signature(f)
            e = safe(lambda: (sig == ins, ins == sig, sig != ins, hash(sig) == hash(ins)))
            if e != ('ok', (True, True, False, True)):
                viol('equality-wrong', {'what': 'signature vs inspect.signature(f)', 'result': repr(e)}, {'what': 'inspect twin'})
            # combinations keep the laws
            for opn, res in (('merge', safe(lambda: S.merge(sig, sig))), ('embed', safe(lambda: S.embed(sig, sig))),
                             ('mask', safe(lambda: S.mask(sig, 0)))) + ((('evaluated', safe(lambda: sig.evaluated())),) if 'unresolvable' not in label else ()):
                if res[0] == 'ok':
                    light_checks(res[1], viol)
                    st.seen('result', (label, opn))
    return st


def run(tier, seed):
    _HEAVY_SEEN.clear()
    st, levels, cfg = terms.explore(__name__, tier, seed)
    fs = annotated_functions()
    shards = [(i, min(len(fs), i + 25)) for i in range(0, len(fs), 25)]
    st2 = runner.run_shards(__name__, 'e1_shard', tier, shards, seed)
    st.merge(st2)
    coverage = {
        'exhaustive': True,
        'states': st.c.get('states', 0) + st.c.get('states_final_level', 0),
        'transitions': st.c.get('transitions', 0),
        'traces_validated_against_impl': st.c.get('evaluations', 0),
        'evaluations': st.c.get('evaluations', 0),
        'distinct_nontrivial': st.c.get('heavy_states', 0) + len(st.distinct.get('result', ())),
        'annotated_functions': len(fs),
        'levels': levels,
        'rule': 'every state of the algebra BFS (replace keeps type / provenance / upgraded annotations, reflexive equality, hash) '
                'and, once per distinct parameter list, the heavy comparison with the plain inspect.Signature built from the same '
                'data: str, bind and bind_partial on every call of the alphabet (traces_validated_against_impl), ==/!=/hash against '
                'itself, the plain twin, plain and upgraded objects differing in one field (kind, default, annotation, name, return '
                'annotation, one parameter less) and foreign objects, for signatures and for each parameter; the same on '
                'retrieval results over an annotated universe (eager and postponed annotations, return annotations) and their '
                'merge / embed / mask / evaluated results; distinct_nontrivial = distinct parameter lists compared heavily',
        'bound': cfg.name + '; annotated universe: name-sorted <=2 named parameters over {a,b} x 3 annotation patterns x eager/postponed',
    }
    assumptions = [
        'the plain counterpart is inspect.Signature / inspect.Parameter built from name, kind, default, annotation, return annotation',
        'postponed annotations of the universe are resolvable in their defining globals, except the pattern "unresolvable" (names that exist only for type checkers): comparisons must still return a bool',
    ]
    return st, coverage, assumptions


def replay(art):
    c = art['case']
    st = runner.Stats()
    if c.get('op') == 'algebra-term':
        from vf.props import c08
        term = c08._fix_term((lambda t: (lambda f: f(f, t))(lambda f, x: tuple(f(f, i) for i in x) if isinstance(x, list) else x))(c['term']))
        _HEAVY_SEEN.clear()
        state_check(terms.build(term), term, st)
    else:
        for i, (label, f) in enumerate(annotated_functions()):
            if label == c['label']:
                st2 = e1_shard('quick', (i, i + 1))
                st.merge(st2)
    return [v['detail'] for v in st.viol] or None
