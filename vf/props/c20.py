"""C20 -- support helpers faithfully build and bind signatures.

Engine E1 with execution: every signature of the universe (with defaults,
annotations, return annotation) x every read_sig option combination x every
call shape with distinguishable values, through s / f / func_from_sig /
bind_callsig / sort_callsigs / make_up_callsigs; oracle = a native ``def``
executed by CPython."""
import inspect
import itertools

from sigtools import support

from vf import space, runner, callsem
from vf.space import PO, POK, VA, KWO, VK, show

PROP = 'C20'
OPTS = ('use_modifiers_annotate', 'use_modifiers_posoargs', 'use_modifiers_kwoargs')


def functions(tier):
    u = [s for s in space.universe(3, 'abc') if space.name_sorted(s)]
    if tier == 'thorough':
        u = space.universe(3, 'abc') + [s for s in space.universe(4, 'abcd', min_named=4) if space.name_sorted(s)]
    return u


DEFAULT_STYLES = ('str', 'none', 'tuple', 'comma', 'eqcolon', 'pair', 'arrow', 'bothquotes')
ANNOTATION_STYLES = ('plain', 'sep', 'braces')


def default_text(style, name):
    """Kinds of default value: a distinguishable string, None, an empty tuple (repr ends in a parenthesis), and values
    whose text contains what the string form of a signature uses as punctuation: ', '  '='  ':'  ' -> '."""
    return {'str': repr('d_' + name), 'none': 'None', 'tuple': '()', 'comma': repr('d_%s, x' % name),
            'eqcolon': repr('k=%s: w' % name), 'pair': '(1, %r)' % name, 'arrow': repr('%s -> b' % name),
            'bothquotes': repr('it\'s "%s", x=1' % name)}[style]


def annotation_text(style, name):
    return {'plain': repr('A_' + name), 'sep': repr('A=%s: x, y' % name), 'braces': '{}'}[style]


def native(shape, annotate, ret, style='str'):
    """Reference function: native def returning its arguments keyed by parameter name."""
    defaults = dict((p[0], default_text(style, p[0])) for p in shape if p[2])
    ann = dict((p[0], annotation_text(annotate if isinstance(annotate, str) else 'plain', p[0])) for p in shape) if annotate else None
    names = [p[0] for p in shape]
    body = 'return {%s}' % ', '.join('%r: %s' % (n, n) for n in names)
    src = 'def ref(%s)%s:\n    %s\n' % (space.render(shape, defaults, ann), (" -> 'R -> S, T'" if annotate == 'sep' else " -> 'R'") if ret else '', body)
    ns = {}
    exec(compile(src, '<vf:c20>', 'exec'), ns)
    return ns['ref']


def params_data(sig, sort_kwo=False):
    rows = callsem.param_tuple(sig)
    if sort_kwo:
        pos = [r for r in rows if r[1] != KWO and r[1] != VK]
        kwo = sorted(r for r in rows if r[1] == KWO)
        vk = [r for r in rows if r[1] == VK]
        rows = pos + kwo + vk
    return rows, ('<empty>' if sig.return_annotation is inspect.Signature.empty else sig.return_annotation)


def eval_shape(shape, st):
    has_po = any(p[1] == PO for p in shape)
    calls = callsem.calls_for(shape)
    styles = DEFAULT_STYLES if any(p[2] for p in shape) else ('str',)
    for style, annotate, ret in [(st_, an_, re_) for st_ in styles for an_ in (False,) + ANNOTATION_STYLES for re_ in (False, True)]:
        if style != 'str' and annotate not in (False, 'sep'):
            continue
        if style in ('none', 'tuple') and annotate:
            continue
        for _once in (0,):
            ref = native(shape, annotate, ret, style)
            sig0 = inspect.signature(ref)
            text = str(sig0)
            ptext = text[:-len(" -> 'R -> S, T'" if annotate == 'sep' else " -> 'R'")] if ret else text
            ptext = ptext[1:-1]
            base = {'signature': text}
            case = {'shape': space.to_json(shape), 'annotate': annotate, 'ret': ret, 'defaults': style}
            want = params_data(sig0)
            want_sorted = params_data(sig0, sort_kwo=True)
            # ---- s(text) / f(text): every option combination, eager and postponed
            for ob in range(8):
                opts = dict((o, bool(ob >> i & 1)) for i, o in enumerate(OPTS))
                if ob and has_po:
                    continue        # modifiers-based spellings are claimed for signatures without positional-only parameters
                for future in (False, True):
                    st.inc('states')
                    kw = dict(opts)
                    if future:
                        kw['future_features'] = ('annotations',)
                    args = (ptext, text.rpartition(' -> ')[2] if annotate != 'sep' else "'R -> S, T'") if ret else (ptext,)
                    try:
                        sig1 = support.s(*args, **kw)
                        fn = support.f(*args, **kw)
                    except Exception as e:  # noqa
                        st.violation('s-or-f-raises', dict(case, opts=opts, future=future),
                                     dict(base, options=opts, future=future, error='%s: %s' % (type(e).__name__, e)),
                                     {'options': ob})
                        continue
                    st.inc('transitions')
                    got = params_data(sig1.evaluated() if future else sig1, sort_kwo=bool(ob))
                    if got != (want_sorted if ob else want):
                        st.violation('s-does-not-reproduce-signature', dict(case, opts=opts, future=future),
                                     dict(base, options=opts, future=future, rebuilt=str(sig1)), {'options': ob})
                        continue
                    st.seen('result', (shape, annotate, ret, ob, future, style))
                    if future or (ret and not annotate) or ((annotate or ret) and not ob):
                        continue    # native spelling: call behaviour does not depend on annotations; the modifier spellings
                                    # (annotate on top of kwoargs / posoargs) are executed with and without annotations
                    n = 0
                    for a, k in calls:
                        if callsem.po_by_keyword(shape, k):
                            continue
                        n += 1
                        w, g = callsem.run_call(ref, a, k), callsem.run_call(fn, a, k)
                        if not callsem.same_outcome(w, g):
                            st.violation('f-call-behaviour', dict(case, opts=opts, future=future),
                                         dict(base, options=opts, call=callsem.describe_call(a, k), native=repr(w)[:200],
                                              made=repr(g)[:200]), {'options': ob})
                            break
                    st.inc('evaluations', n)
            # ---- func_from_sig
            st.inc('states')
            try:
                sig2 = inspect.signature(support.func_from_sig(sig0))
                if params_data(sig2) != want:
                    st.violation('func_from_sig-does-not-reproduce-signature', case, dict(base, rebuilt=str(sig2)), {'ret': ret})
            except Exception as e:  # noqa
                st.violation('func_from_sig-raises', case, dict(base, error='%s: %s' % (type(e).__name__, e)),
                             {'ret': ret, 'exception': type(e).__name__})
            st.inc('transitions')
            if annotate or ret:
                continue
            # ---- bind_callsig / sort_callsigs against really calling
            valid, invalid = support.sort_callsigs(sig0, [(a, k) for a, k in calls if not callsem.po_by_keyword(shape, k)])
            sorted_valid = dict(((a, tuple(sorted(k))), b) for a, k, b in valid)
            sorted_invalid = set((a, tuple(sorted(k))) for a, k in invalid)
            n = 0
            for a, k in calls:
                if callsem.po_by_keyword(shape, k):
                    continue
                n += 1
                w = callsem.run_call(ref, a, k)
                try:
                    g = ('ok', support.bind_callsig(sig0, a, k))
                except TypeError as e:
                    g = ('TypeError', str(e))
                key = (a, tuple(sorted(k)))
                prob = None
                if not callsem.same_outcome(w, g):
                    prob = 'bind_callsig: %r, really calling: %r' % (g, w)
                elif w[0] == 'ok' and sorted_valid.get(key) != w[1]:
                    prob = 'sort_callsigs does not list the call as valid with the mapping %r' % (w[1],)
                elif w[0] != 'ok' and key not in sorted_invalid:
                    prob = 'sort_callsigs does not list the call as invalid'
                if prob:
                    st.violation('bind_callsig-differs-from-calling', case,
                                 dict(base, call=callsem.describe_call(a, k), problem=prob[:400]), {})
                    break
            st.inc('evaluations', n)
            # ---- make_up_callsigs
            for extra in (0, 1, 2):
                got = support.make_up_callsigs(sig0, extra)
                got_set = set((a, tuple(sorted(k.items()))) for a, k in got)
                named = [p[0] for p in shape if p[1] in (PO, POK)] + [p[0] for p in shape if p[1] == KWO]
                made = ['__make_up_callsigs__extra_%d' % i for i in range(extra)]
                prefixes = [tuple((named + made)[:i]) for i in range(len(named) + extra + 1)]
                kwnames = named + made + [p[0] for p in shape if p[1] in (VA, VK)]
                missing = None
                cnt = 0
                for pre in prefixes:
                    for r in range(len(kwnames) + 1):
                        for sub in itertools.combinations(kwnames, r):
                            cnt += 1
                            if (pre, tuple(sorted((x, x) for x in sub))) not in got_set:
                                missing = (pre, sub)
                                break
                        if missing:
                            break
                    if missing:
                        break
                st.inc('evaluations', cnt)
                if missing:
                    st.violation('make_up_callsigs-incomplete', dict(case, extra=extra),
                                 dict(base, extra=extra, missing={'positionals': list(missing[0]), 'keywords': list(missing[1])},
                                      returned=len(got)), {})


def shard(tier, sh):
    i0, i1 = sh
    st = runner.Stats()
    for shape in functions(tier)[i0:i1]:
        eval_shape(shape, st)
        if len(shape) >= 3:
            st.sample({'signature': show(shape)}, 2)
    return st


def run(tier, seed):
    fs = functions(tier)
    per = 4
    shards = [(i, min(len(fs), i + per)) for i in range(0, len(fs), per)]
    st = runner.run_shards(__name__, 'shard', tier, shards, seed)
    coverage = {
        'exhaustive': True,
        'states': st.c.get('states', 0),
        'transitions': st.c.get('transitions', 0) + st.c.get('evaluations', 0),
        'traces_validated_against_impl': st.c.get('evaluations', 0),
        'evaluations': st.c.get('evaluations', 0),
        'distinct_nontrivial': len(st.distinct.get('result', ())),
        'functions': len(fs),
        'rule': 'states = (signature with/without annotations and return annotation, read_sig option set, eager/postponed) '
                'round trips through s()/f() plus func_from_sig; transitions = rebuilt signatures compared + calls executed; '
                'every call of the alphabet is executed on a native reference def and compared with f()\'s function, with '
                'bind_callsig and with sort_callsigs (traces_validated_against_impl); make_up_callsigs is compared with '
                'an independent enumeration of prefixes x keyword subsets for extra = 0, 1, 2; distinct_nontrivial = '
                'distinct faithful round trips',
        'bound': 'quick: name-sorted signatures <=3 named parameters; thorough: every order plus name-sorted 4-parameter ones',
    }
    assumptions = [
        'modifiers-based spellings are checked only for signatures without positional-only parameters, keyword-only order compared as a set (as the property says)',
        'calls naming a positional-only parameter by keyword next to **kwargs are excluded',
    ]
    return st, coverage, assumptions


def replay(art):
    st = runner.Stats()
    eval_shape(space.from_json(art['case']['shape']), st)
    return [v['detail'] for v in st.viol] or None
