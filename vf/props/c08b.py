"""C08 part B (engine E3): provenance of discovery results over the program grammar, of modifiers wrappers and of
plain retrieval: complete, truthful, depth-ordered along the known chain wrapper -> callee."""
import inspect
import types

import sigtools
from sigtools import signatures as S, modifiers as M

from vf import space, alg, runner, grammar, discovery, slices, progs
from vf.grammar import Prog, CallSpec
from vf.space import PO, POK, VA, KWO, VK, shape_of

CHUNK = 500


def label(f):
    if isinstance(f, types.MethodType):
        return 'bound ' + getattr(f.__func__, '__name__', '?')
    return getattr(f, '__name__', None) or repr(f)


def declares(f, name):
    code = getattr(f, '__code__', None)
    if code is not None and name in code.co_varnames[:code.co_argcount + code.co_kwonlyargcount + bool(code.co_flags & 4)
                                                     + bool(code.co_flags & 8)]:
        return True         # the def's own parameter list, whatever __signature__ / __wrapped__ say on top of it
    for getter in (lambda: inspect.signature(f, follow_wrapped=False), lambda: S.signature(f)):
        try:
            if name in getter().parameters:
                return True
        except (ValueError, TypeError):
            pass
    return False


def problems(sig):
    out = []
    src = sig.sources
    names = list(sig.parameters)
    depths = src.get('+depths')
    if depths is None:
        return [('sources-no-depths', {})]
    keys = [k for k in src if k != '+depths']
    missing = [n for n in names if n not in src]
    extra = [k for k in keys if k not in names]
    if missing:
        out.append(('sources-missing-parameter', {'missing': missing}))
    if extra:
        out.append(('sources-refers-to-absent-parameter', {'extra': extra}))
    for n in names:
        lst = src.get(n)
        if lst is None:
            continue
        if not lst:
            out.append(('sources-empty-list', {'parameter': n}))
        ids = [discovery.fid(f) for f in lst]
        if len(set(ids)) != len(ids):
            out.append(('sources-duplicate', {'parameter': n, 'list': [label(f) for f in lst]}))
        for f in lst:
            if f not in depths:
                out.append(('source-without-depth', {'parameter': n, 'callable': label(f)}))
            if not declares(f, n):
                out.append(('source-does-not-declare', {'parameter': n, 'callable': label(f)}))
    for f, d in depths.items():
        if not isinstance(d, int) or isinstance(d, bool) or d < 0:
            out.append(('depth-not-natural', {'callable': label(f), 'depth': d}))
    return out


def eval_prog(ld, st):
    pr = ld.prog
    if pr.route == 'param':
        return          # partial objects as retrieval target: provenance and depths are C19's (part B)
    case = {'op': 'program', 'program': grammar.to_json(pr)}
    st.inc('states')
    status, sig = discovery.retrieve(ld)
    if status != 'ok':
        st.inc('retrieval-raised(C07/C15)')
        return
    st.inc('transitions')
    exps, why = discovery.expected(ld)
    shift = 0
    if pr.route == 'wrapsdeco':
        # one more level: the only-wrapping decorator (depth 0) forwards everything to the wrapper (depth 1)
        shift = 1
        from sigtools import _signatures as _S
        own = _S.set_default_sources(inspect.signature(ld.w, follow_wrapped=False), ld.w)
        try:
            exps = [S.forwards(own, e) for e in exps]
        except ValueError:
            pass

    def viol(kind, detail, feat):
        d = {'program': discovery.show_prog(ld), 'reported': str(sig), 'sources': alg.src_show(sig)}
        d.update(detail)
        st.violation(kind, case, d, feat)

    for kind, detail in problems(sig):
        feat = {}
        if kind == 'sources-duplicate':
            # the known class: merge concatenates the lists of its inputs -- exactly what the explicit
            # declaration merge(*forwards(...)) computed through the public algebra gives as well
            same = any(discovery.src_multiset(e) == discovery.src_multiset(sig) for e in exps)
            if not same and len(pr.calls) > 1:
                # where the expectation is not available (a callee discovery treats as unresolvable): the same class is
                # recognised by its shape -- no callable listed more often than there are forwarding calls to merge
                import collections
                nfw = sum(1 for j in range(len(pr.calls)) if any(discovery.call_flags(pr, j)[:2]))
                same = all(max(collections.Counter(discovery.fid(g) for g in lst).values()) <= nfw
                           for k_, lst in sig.sources.items() if k_ != '+depths' and lst)
            feat = {'cause': 'concatenation-of-input-lists' if same and len(pr.calls) > 1 else 'other', 'origin': 'discovery'}
        viol(kind, detail, feat)
    depths = sig.sources.get('+depths', {})
    f = discovery.own_func(ld)
    if pr.route == 'param':
        return
    d0 = depths.get(f)
    if d0 is None:      # plain retrieval of a bound method is sourced to the bound method object
        for g, v in depths.items():
            if discovery.fid(g) == discovery.fid(ld.w):
                d0 = v
    if shift and depths.get(ld.w) != 0:
        viol('depth-chain', {'problem': 'the only-wrapping decorator has depth %r, not 0' % (depths.get(ld.w),)}, {})
    if d0 != shift and not (shift and d0 is None):
        viol('depth-chain', {'problem': 'the wrapper itself has depth %r, not %d' % (d0, shift)}, {})
    if why == 'declared' and alg.params_key(sig) != alg.params_key(discovery.plain(ld)):
        st.seen('nontrivial', (pr.outer, pr.calls[0].callee, shape_of(sig)))
        for j, c in enumerate(ld.callees):
            uva, uvk, _, _ = discovery.call_flags(pr, j)
            if not (uva or uvk):
                continue
            d = None
            for g, v in depths.items():
                if discovery.fid(g) == discovery.fid(c):
                    d = v
            if d is None:
                # a callee contributing no parameter need not be listed; if it is a source it must have a depth
                if any(discovery.fid(g) == discovery.fid(c) for lst in (v for k, v in sig.sources.items() if k != '+depths') for g in lst):
                    viol('depth-chain', {'problem': 'callee %s is a source but has no depth' % label(c)}, {})
            elif d <= depths.get(f, 0):
                viol('depth-chain', {'problem': 'callee %s has depth %r, not below the wrapper (%r)' % (label(c), d, depths.get(f))}, {})
            elif pr.route == 'kpartial':
                pass        # wrapper -> partial object -> translated helper -> callee: C19's chain
            elif pr.route in ('helper', 'partial_helper'):
                # wrapper (0) -> the shared helper (1) -> the callee it was handed (2)
                dh = depths.get(ld.module.APPLY)
                if dh != 1 or d != 2:
                    viol('depth-chain', {'problem': 'wrapper -> helper -> callee %s have depths 0, %r, %r' % (label(c), dh, d)}, {})
            elif d != 1 + shift:
                viol('depth-chain', {'problem': 'callee %s is reached directly from the wrapper but has depth %r' % (label(c), d)}, {})


def chain_programs():
    """w -> mid -> inner chains (depths 0, 1, 2) and the same callee reached twice at different depths."""
    src = '''
from sigtools import wrappers, modifiers
def CH_inner(x, y=0, *, z):
    return 0
def CH_mid(m, *args, **kwargs):
    return CH_inner(*args, **kwargs)
def CH_top(t, *args, **kwargs):
    return CH_mid(*args, **kwargs)
def CH_twice_short_first(t, *args, **kwargs):
    if FLAG:
        return CH_inner(*args, **kwargs)
    return CH_mid(0, *args, **kwargs)
def CH_twice_long_first(t, *args, **kwargs):
    if FLAG:
        return CH_mid(0, *args, **kwargs)
    return CH_inner(*args, **kwargs)
def CH_deco(func, d, *args, **kwargs):
    return func(*args, **kwargs)
CH_wrapped_wd = wrappers.wrapper_decorator(CH_deco)(CH_inner)
CH_wrapped_d = wrappers.decorator(CH_deco)(CH_inner)
CH_wrapped_mid_wd = wrappers.wrapper_decorator(CH_deco)(CH_mid)
class CH_K(object):
    @modifiers.annotate(x=int)
    def annotated(self, x, y=0):
        return x
    @modifiers.annotate(x=int)
    @modifiers.kwoargs('y')
    def annotated_kwo(self, x, y=0):
        return x
    @modifiers.kwoargs('y')
    @modifiers.annotate(x=int)
    def kwo_annotated(self, x, y=0):
        return x
'''
    return src


def eval_chains(st):
    batch = progs.Batch()
    batch.add(chain_programs(), 6)
    batch.load()
    try:
        g = batch.get
        inner, mid = g('CH_inner'), g('CH_mid')
        for name, want in (('CH_top', {'CH_top': 0, 'CH_mid': 1, 'CH_inner': 2}),
                           ('CH_twice_short_first', {'CH_twice_short_first': 0, 'CH_mid': 1, 'CH_inner': 1}),
                           ('CH_twice_long_first', {'CH_twice_long_first': 0, 'CH_mid': 1, 'CH_inner': 1})):
            st.inc('states')
            st.inc('transitions')
            sig = sigtools.signature(g(name))
            got = dict((label(f), d) for f, d in sig.sources['+depths'].items())
            if got != want:
                st.violation('depth-chain', {'op': 'chain', 'name': name},
                             {'program': name, 'reported': str(sig), 'depths': got, 'expected': want,
                              'rule': 'depths strictly increase along the chain; smallest depth when reached twice'}, {})
            for kind, detail in problems(sig):
                if kind == 'sources-duplicate':
                    continue        # classified on the grammar programs
                st.violation(kind, {'op': 'chain', 'name': name}, dict(detail, program=name, sources=alg.src_show(sig)), {})
        # wrappers objects: the wrapper object, the wrapping function it calls, the wrapped function that one calls (and on)
        for name, chain in (('CH_wrapped_wd', ['CH_deco', 'CH_inner']), ('CH_wrapped_d', ['CH_deco', 'CH_inner']),
                            ('CH_wrapped_mid_wd', ['CH_deco', 'CH_mid', 'CH_inner'])):
            for getter in (sigtools.signature, inspect.signature):
                st.inc('states')
                st.inc('transitions')
                sig = getter(g(name))
                got = dict((label(f), d) for f, d in sig.sources['+depths'].items())
                along = [got.get(nm) for nm in chain]
                if None in along or any(b <= a for a, b in zip(along, along[1:])) or min(got.values()) != 0 or along[0] < 1:
                    st.violation('depth-chain', {'op': 'chain', 'name': name},
                                 {'program': name, 'reported': str(sig), 'depths': got, 'chain_of_forwarding': ['<the wrapper object>'] + chain,
                                  'rule': 'depths start at 0 at the outermost callable and strictly increase along the chain'},
                                 {'object': 'wrappers'})
        # annotate / modifiers on methods, retrieved through an instance
        inst = g('CH_K')()
        for name in ('annotated', 'annotated_kwo', 'kwo_annotated'):
            for getter in (sigtools.signature, S.signature, inspect.signature):
                st.inc('states')
                st.inc('transitions')
                bound = getattr(inst, name)
                sig = getter(bound)
                for kind, detail in problems(sig):
                    st.violation(kind, {'op': 'chain', 'name': name},
                                 dict(detail, program='CH_K().%s' % name, reported=str(sig), sources=alg.src_show(sig)), {'object': 'bound-method'})
                if name != 'annotated':
                    # a modifiers wrapper, bound: the wrapper object stands in for the function in both maps
                    raw = [label(f) for lst in (v for k_, v in sig.sources.items() if k_ != '+depths') for f in lst
                           if isinstance(f, types.FunctionType)]
                    raw += [label(f) for f in sig.sources.get('+depths', {}) if isinstance(f, types.FunctionType)]
                    if raw:
                        st.violation('modifier-wrapper-not-swapped-consistently', {'op': 'chain', 'name': name},
                                     {'program': 'CH_K().%s' % name, 'reported': str(sig), 'sources': alg.src_show(sig),
                                      'problems': ['the raw function is listed where the bound wrapper object stands for it: %r' % sorted(set(raw))]},
                                     {'object': 'bound-method'})
    finally:
        batch.close()


def eval_modifiers(st):
    """Wrapper objects created by modifiers replace the function they wrap in both maps."""
    from vf import callsem
    for shape in [s for s in space.universe(2, 'ab') if space.name_sorted(s)]:
        poks = [p[0] for p in shape if p[1] == POK]
        stacked = []
        if len(poks) >= 2:
            # two modifiers stacked on one function, either order, and a third kind on top
            stacked = [(lambda f_, a=poks[0], b=poks[-1]: M.kwoargs(b)(M.posoargs(end=a)(f_)), 'kwoargs over posoargs'),
                       (lambda f_, a=poks[0], b=poks[-1]: M.posoargs(end=a)(M.kwoargs(b)(f_)), 'posoargs over kwoargs'),
                       (lambda f_, a=poks[0], b=poks[-1]: M.annotate(**{a: int})(M.kwoargs(b)(f_)), 'annotate over kwoargs')]
        if poks:
            stacked.append((lambda f_, b=poks[-1]: M.kwoargs(b)(M.autokwoargs(f_)), 'kwoargs over autokwoargs'))
        for sel in poks:
            for deco, nm in ((M.kwoargs(sel), 'kwoargs'), (M.posoargs(end=sel), 'posoargs')) + tuple(stacked if sel == poks[0] else ()):
                f = callsem.valued_func(shape, cache=False)
                try:
                    g = deco(f)
                except ValueError:
                    continue
                st.inc('states')
                st.inc('transitions')
                for getter in (sigtools.signature, S.signature):
                    sig = getter(g)
                    case = {'op': 'modifier', 'shape': space.to_json(shape), 'modifier': nm, 'name': sel}
                    src = sig.sources
                    bad = []
                    for n in sig.parameters:
                        if [x for x in src.get(n, [])] != [g]:
                            bad.append('parameter %r sourced to %r, not the wrapper object' % (n, [label(x) for x in src.get(n, [])]))
                    if list(src.get('+depths', {}).items()) != [(g, 0)]:
                        bad.append('depths %r, not {wrapper: 0}' % [(label(k), v) for k, v in src.get('+depths', {}).items()])
                    if bad:
                        st.violation('modifier-wrapper-not-swapped-consistently', case,
                                     {'function': 'def f' + space.show(shape), 'modifier': '%s(%r)' % (nm, sel), 'problems': bad}, {})


def eval_starnames(st):
    """embed / forwards where a star parameter of the outer signature is named like a named parameter of the inner one."""
    outers = [x for x in space.universe(1, 'a', ('p',), ('k',)) if any(q[1] in (VA, VK) for q in x)]
    inners = [x for x in space.universe(2, ('p', 'k', 'x')) if any(q[0] in ('p', 'k') for q in x)]
    for o in outers:
        for i in inners:
            so, si = alg.sig_of(o), alg.sig_of(i)
            for opn, fn in (('embed', lambda: S.embed(so, si)), ('forwards', lambda: S.forwards(so, si)),
                            ('embed(use_varargs=False)', lambda: S.embed(so, si, use_varargs=False)),
                            ('embed(use_varkwargs=False)', lambda: S.embed(so, si, use_varkwargs=False))):
                st.inc('states')
                try:
                    res = fn()
                except ValueError:
                    continue
                st.inc('transitions')
                for kind, detail in problems(res):
                    if kind == 'sources-duplicate':
                        continue
                    st.violation(kind, {'op': 'starnames', 'which': opn, 'sigs': [space.to_json(o), space.to_json(i)]},
                                 dict(detail, operation='%s(%s, %s)' % (opn, space.show(o), space.show(i)), result=alg.sig_str(res),
                                      sources=alg.src_show(res)), {'origin': 'starnames'})
                st.seen('nontrivial', ('starnames', opn, shape_of(res)))


def nary_operands(tier):
    u = space.universe(1, 'abc')
    first = [x for x in u if space.std_stars(x)]
    return (first, u, first) if tier == 'quick' else (u, u, u)


def eval_nary(shapes, st):
    """One flat n-ary call: embed(s0, s1, s2[, s3]) shifts the callables of s_i by i, merge(s0, s1, s2) by nothing; a callable
    reached twice keeps its smallest depth; named parameters keep the lists of the operands that carry them."""
    sigs = [alg.sig_of(x) for x in shapes]
    for op in ('embed', 'merge'):
        st.inc('states')
        try:
            res = getattr(S, op)(*sigs)
        except ValueError:
            continue
        st.inc('transitions')
        want = {}
        for i, sg in enumerate(sigs):
            for f, d in sg.sources.get('+depths', {}).items():
                v = d + (i if op == 'embed' else 0)
                if id(f) not in want or v < want[id(f)][1]:
                    want[id(f)] = (f, v)
        got = dict((id(f), (f, d)) for f, d in res.sources.get('+depths', {}).items())
        case = {'op': 'nary', 'which': op, 'sigs': [space.to_json(x) for x in shapes]}
        base = {'operation': '%s(%s)' % (op, ', '.join(space.show(x) for x in shapes)), 'result': alg.sig_str(res)}
        if dict((k, v[1]) for k, v in want.items()) != dict((k, v[1]) for k, v in got.items()):
            st.violation('depths-rule', case,
                         dict(base, expected_depths=sorted((label(f), v) for f, v in want.values()),
                              depths=sorted((label(f), v) for f, v in got.values())), {'op': op + '-nary'})
            continue
        for kind, detail in problems(res):
            if kind == 'sources-duplicate':
                continue        # the concatenation clause is decided (and recorded) by part A on binary steps
            st.violation(kind, case, dict(base, **detail), {'origin': 'nary'})
        st.seen('nontrivial', (op, shape_of(res), tuple(sorted(v[1] for v in got.values()))))


def shard(tier, sh):
    name, i0, i1 = sh
    st = runner.Stats()
    if name == 'nary':
        import itertools
        first, second, third = nary_operands(tier)
        for a in first[i0:i1]:
            for b in second:
                for c in third:
                    eval_nary((a, b, c), st)
        for a in first[i0:i1]:
            if len(a) == 1 and a[0][1] == VK:
                for b, c, d in itertools.product([x for x in first if any(p[1] in (VA, VK) for p in x)], repeat=3):
                    eval_nary((a, b, c, d), st)
        return st
    if name == 'chains+modifiers':
        eval_chains(st)
        eval_modifiers(st)
        eval_starnames(st)
        return st
    plist = dict(slices.all_slices('quick'))[name][i0:i1]
    batch, loaded = discovery.load(plist, uid_base=i0)
    try:
        for ld in loaded:
            eval_prog(ld, st)
        if loaded:
            st.sample({'part': 'B', 'slice': name, 'program': discovery.show_prog(loaded[len(loaded) // 2])}, 1)
    finally:
        batch.close()
    return st


def run_part(tier, seed):
    shards = [('chains+modifiers', 0, 0)]
    nfirst = len(nary_operands(tier)[0])
    shards += [('nary', i, min(nfirst, i + 4)) for i in range(0, nfirst, 4)]
    total = 0
    for name, plist in slices.all_slices('quick'):
        total += len(plist)
        for i in range(0, len(plist), CHUNK):
            shards.append((name, i, min(len(plist), i + CHUNK)))
    st = runner.run_shards(__name__, 'shard', tier, shards, seed)
    st.c['states_final_level'] = st.c.get('states_final_level', 0)
    return st, {'part_B': 'provenance invariant on %d discovery results (grammar slices S1-S3), 3 chain programs '
                          '(depths 0/1/2, smallest depth when reached twice) and modifiers wrappers (wrapper object in '
                          'both maps); distinct non-trivial discovery results: %d' % (total, len(st.distinct.get('nontrivial', ())))}


def replay(art):
    c = art['case']
    st = runner.Stats()
    if c.get('op') == 'program':
        pr = grammar.from_json(c['program'])
        batch, loaded = discovery.load([pr])
        try:
            eval_prog(loaded[0], st)
        finally:
            batch.close()
    elif c.get('op') == 'starnames':
        eval_starnames(st)
    elif c.get('op') == 'nary':
        eval_nary(tuple(space.from_json(x) for x in c['sigs']), st)
    elif c.get('op') == 'chain':
        eval_chains(st)
    else:
        eval_modifiers(st)
    return runner.fresh_details('C08', st) or None
