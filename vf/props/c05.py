"""C05 -- automatic discovery never reports a signature the function cannot honour.

Engine E3: every program of the grammar slices (vf/slices.py) is written to a
real file, retrieved with sigtools.signature and *executed* on every
non-colliding call shape the reported signature accepts."""
import itertools

import sigtools
from sigtools import signatures as S

from vf import space, alg, runner, grammar, discovery, slices
from vf.space import PO, POK, VA, KWO, VK, show, shape_of

PROP = 'C05'
CHUNK = 400


def tainted_star(pr):
    """Stars of the wrapper that do not reach some call pristine: {'va','vk'} -> reason."""
    out = {}
    for which in ('va', 'vk'):
        if grammar.non_pristine(pr, which):
            out[which] = 'taint:' + pr.taint[0]
    for cs in pr.calls:
        if cs.va in ('both',):
            out.setdefault('va', 'combined with another star')
        if cs.vk in ('both',):
            out.setdefault('vk', 'combined with another star')
    return out


def check_not_advertised(ld, sig, tainted, st, case):
    """Clause 2: callee parameters that could only be fed through a non-pristine star are not advertised."""
    pr = ld.prog
    own = set(space.names_of(pr.outer))
    for p in sig.parameters.values():
        if p.name in own or p.kind in (p.VAR_POSITIONAL, p.VAR_KEYWORD):
            continue
        for cs in pr.calls:
            ck = dict((q[0], q[1]) for q in cs.callee).get(p.name)
            if ck is None:
                continue
            bad = None
            if 'vk' in tainted:
                if ck == KWO or (ck == POK and p.kind in (p.POSITIONAL_OR_KEYWORD, p.KEYWORD_ONLY)):
                    bad = '**%s (%s)' % (space.star_name(pr.outer, VK), tainted['vk'])
            if 'va' in tainted and bad is None:
                if ck == PO or (ck == POK and p.kind in (p.POSITIONAL_ONLY, p.POSITIONAL_OR_KEYWORD)):
                    bad = '*%s (%s)' % (space.star_name(pr.outer, VA), tainted['va'])
            if bad:
                st.violation('advertises-parameter-fed-through-non-pristine-star', case,
                             {'program': discovery.show_prog(ld), 'reported': str(sig), 'parameter': p.name, 'star': bad},
                             {'taint': pr.taint[0] if pr.taint else 'combined', 'context': pr.context})
                return False
    return True


def _narrow():
    return 0


def check_replaceable_callee(ld, sig, pl, st, case):
    """The callee is the default of the keyword-only parameter fn0 and the reported signature differs from the plain
    one: whatever it advertises has to hold for a caller who replaces fn0 (here: by a function taking nothing) as well
    as for one who leaves the default."""
    pr = ld.prog
    own = set(space.names_of(pr.outer))
    kws = sorted(set(nm for cs in pr.calls for nm in space.kwpass(cs.callee)) - own)
    maxp = max(len(space.positionals(cs.callee)) for cs in pr.calls) + len(space.positionals(pr.outer))
    n_exec = 0
    for n in range(maxp + 2):
        for r in range(min(len(kws), 2) + 1):
            for K in itertools.combinations(kws, r):
                for replace in (False, True):
                    a = (0,) * n
                    k = dict((nm, 0) for nm in K)
                    if replace:
                        k['fn0'] = _narrow
                    try:
                        sig.bind(*a, **k)
                    except TypeError:
                        continue
                    n_exec += 1
                    try:
                        ld.w(*a, **k)
                        continue
                    except TypeError as e:
                        err = str(e)
                    st.violation('accepted-call-raises-TypeError', case,
                                 {'program': discovery.show_prog(ld), 'reported': str(sig), 'plain': str(pl),
                                  'call': {'positionals': n, 'keywords': sorted(K), 'fn0': 'a function taking nothing' if replace else 'default'},
                                  'error': err[:200]},
                                 {'context': pr.context, 'route': pr.route, 'taint': None})
                    st.inc('transitions', n_exec)
                    return
    st.inc('transitions', n_exec)
    st.inc('executed_programs')


def eval_prog(ld, st):
    pr = ld.prog
    case = {'program': grammar.to_json(pr)}
    status, sig = discovery.retrieve(ld)
    st.inc('states')
    if status != 'ok':
        st.inc('retrieval-raised(C07/C15)')
        return
    pl = discovery.plain(ld)
    tainted = tainted_star(pr)
    ambiguous = bool(pr.taint and pr.taint[2] == 'after' and pr.context in grammar.NESTED_CONTEXTS and grammar.taints(pr.taint))
    if tainted and ambiguous:
        # the taint follows the invocation of the nested function: in execution order the star is pristine, a static
        # reading may call it tainted.  Either answer is acceptable: not advertising, or advertising soundly.
        st.inc('ambiguous_programs')
        probe = runner.Stats()
        if check_not_advertised(ld, sig, tainted, probe, case):
            return
        tainted = {}
    if tainted:
        st.inc('tainted_programs')
        check_not_advertised(ld, sig, tainted, st, case)
        if alg.params_key(sig) != alg.params_key(pl):
            st.seen('nontrivial', (pr.outer, shape_of(sig)))
        return
    if alg.params_key(sig) == alg.params_key(pl):
        st.inc('fallback_or_unchanged')
        return
    if pr.route == 'method_default':
        check_replaceable_callee(ld, sig, pl, st, case)
        return
    rshape = shape_of(sig)
    if pr.route == 'kpartial':
        # the translated helper's own optional keyword-only parameter: never passed by the driver
        rshape = tuple(p for p in rshape if not (p[0] == 'opt_' and p[1] == KWO and p[2]))
    known = set(nm for s_ in discovery.input_shapes(ld) for nm in space.names_of(s_))
    alien = [p[0] for p in rshape if p[0] not in known]
    if alien:
        st.violation('reports-parameter-of-neither-wrapper-nor-callee', case,
                     {'program': discovery.show_prog(ld), 'reported': str(sig), 'plain': str(pl), 'parameters': alien},
                     {'context': pr.context, 'route': pr.route})
        return
    st.seen('nontrivial', (pr.outer, pr.calls[0].callee, rshape))
    alpha = discovery.alphabet()
    ins = discovery.input_shapes(ld)
    if pr.route == 'method':
        pass    # self is bound: the reported signature and the inputs are compared without it
    bits = alpha.acc(rshape) & alpha.noncolliding(rshape, ins) & ~alpha.excluded(rshape)
    for s in ins:
        bits &= ~alpha.excluded(s)
    # a keyword the wrapper itself writes in the forwarding call cannot be passed again (C03/C04: call shapes disjoint
    # from the names); no signature can express "any keyword but this one" next to **kwargs
    bits &= alpha.kw_disjoint(set(nm for cs in pr.calls for nm in cs.names))
    n_exec = 0
    for n, K in alpha.iter_bits(bits):
        n_exec += 1
        if not discovery.runs_somehow(ld, n, K):
            st.violation('accepted-call-raises-TypeError', case,
                         {'program': discovery.show_prog(ld), 'reported': str(sig), 'plain': str(pl),
                          'call': {'positionals': n, 'keywords': K}},
                         {'context': pr.context, 'route': pr.route, 'taint': pr.taint[0] if pr.taint else None})
            break
    st.inc('transitions', n_exec)
    st.inc('executed_programs')


SPECIAL_SRC = '''
def SP_inner(x, y):
    return x


def SP_other(p, q):
    return p


def SP_default_lambda(*a, cb=lambda *a, **k: SP_inner(*a, **k), **k):
    return SP_other(*a, **k)


SP_lambda_in_def_line = SP_default_lambda.__kwdefaults__['cb']


def SP_after_star(*args, **kwargs):
    return SP_inner(*args, 1, **kwargs)


def SP_two_lambdas():
    return [lambda *a, **k: SP_inner(*a, **k), lambda *a, **k: SP_other(*a, **k)]


SP_first_of_two, SP_second_of_two = SP_two_lambdas()


class SP_K(object):
    def noself(*args, **kwargs):
        return SP_inner(*args, **kwargs)

    def m(self, *args, **kwargs):
        return (lambda *a, **k: SP_inner(*a, **k))(*args, **kwargs)
'''
SPECIAL = ('SP_default_lambda', 'SP_lambda_in_def_line', 'SP_after_star', 'SP_first_of_two', 'SP_second_of_two',
           'SP_K().noself', 'SP_K().m')


def eval_special(st):
    """Hand-written forwarders outside the grammar (lambdas sharing a source line with other code, a positional written
    after *args, a method that keeps its instance in *args): the same claim, acceptance decided by inspect's own bind."""
    from vf import progs
    batch = progs.Batch(prelude='')
    batch.add(SPECIAL_SRC, 10)
    batch.load()
    names = ('x', 'y', 'p', 'q', 'zz')
    try:
        for expr in SPECIAL:
            obj = eval(expr, vars(batch.modules[0]))
            st.inc('states')
            try:
                sig = sigtools.signature(obj)
                pl = S.signature(obj)
            except Exception:  # noqa: totality is C07's
                st.inc('retrieval-raised(C07/C15)')
                continue
            if alg.params_key(sig) == alg.params_key(pl):
                st.inc('fallback_or_unchanged')
                continue
            n_exec = 0
            for n in range(4):
                for r in range(3):
                    for K in itertools.combinations(names, r):
                        a, k = (0,) * n, dict((nm, 0) for nm in K)
                        try:
                            sig.bind(*a, **k)
                        except TypeError:
                            continue
                        n_exec += 1
                        try:
                            obj(*a, **k)
                        except TypeError as e:
                            st.violation('accepted-call-raises-TypeError', {'special': expr},
                                         {'program': SPECIAL_SRC, 'object': expr, 'reported': str(sig), 'plain': str(pl),
                                          'call': {'positionals': n, 'keywords': sorted(K)}, 'error': str(e)[:200]},
                                         {'context': 'special', 'route': expr, 'taint': None})
                            break
                    else:
                        continue
                    break
                else:
                    continue
                break
            st.inc('transitions', n_exec)
            st.inc('executed_programs')
    finally:
        batch.close()


def shard(tier, sh):
    name, i0, i1 = sh
    if name == 'special':
        st = runner.Stats()
        eval_special(st)
        return st
    plist = dict(slices.all_slices(tier))[name][i0:i1]
    st = runner.Stats()
    batch, loaded = discovery.load(plist, uid_base=i0)
    try:
        for ld in loaded:
            eval_prog(ld, st)
        if loaded:
            st.sample({'slice': name, 'program': discovery.show_prog(loaded[len(loaded) // 2])}, 1)
    finally:
        batch.close()
    alpha = discovery.alphabet()
    st.inc('validated', alpha.validated)
    alpha.validated = 0
    return st


def shards(tier):
    out = [('special', 0, 0)]
    for name, plist in slices.all_slices(tier):
        for i in range(0, len(plist), CHUNK):
            out.append((name, i, min(len(plist), i + CHUNK)))
    return out


def run(tier, seed):
    st = runner.run_shards(__name__, 'shard', tier, shards(tier), seed)
    sl = dict((n, len(l)) for n, l in slices.all_slices(tier))
    coverage = {
        'exhaustive': True,
        'states': st.c.get('states', 0),
        'transitions': st.c.get('transitions', 0),
        'traces_validated_against_impl': st.c.get('transitions', 0) + st.c.get('validated', 0),
        'evaluations': st.c.get('transitions', 0),
        'distinct_nontrivial': len(st.distinct.get('nontrivial', ())),
        'slices': sl,
        'rule': 'states = programs of the grammar slices, each written to a real file and retrieved with '
                'sigtools.signature; transitions = really executed (program, call shape) pairs: every non-colliding '
                'call the reported signature accepts (acceptance by binder model B, replayed against CPython), for '
                'two-branch programs on both branches, for foreign stars over every choice of the hidden arguments; '
                'tainted programs are checked for the not-advertised clause; distinct_nontrivial = distinct '
                '(outer, callee, reported shape) triples where discovery changed the signature',
        'bound': 'quick: S1 outer <=1 named over {a} (>=1 star), callee <=2 named over {x,y} or {a,x} containing a, '
                 '<=1 constant positional, <=1 written keyword; S2 contexts x routes on 6 pairs; S3 taints x '
                 'before/after x 4 contexts on 3 pairs. thorough: outer <=2 named, <=2 constants, <=2 keywords in '
                 'every order, 14 pairs',
    }
    assumptions = [
        'generated bodies can raise TypeError only through argument binding; any other exception aborts the run (exit 2)',
        '"mutated / handed to other code" taints **kwargs only: a tuple cannot be changed by its receiver',
        'taint placement is relative to the execution of the forwarding call (for nested def / lambda: relative to the invocation); in nested scopes a taint anywhere in the body counts as tainting (execution order is not static)', 'call shapes are disjoint from the keyword names the wrapper writes itself in the forwarding call',
        'programs with a tainted star are checked for the not-advertised clause only; hidden arguments of foreign stars are chosen existentially',
    ]
    return st, coverage, assumptions


def replay(art):
    st = runner.Stats()
    if 'special' in art['case']:
        eval_special(st)
        return [v['detail'] for v in st.viol if v['case'] == art['case']] or None
    pr = grammar.from_json(art['case']['program'])
    batch, loaded = discovery.load([pr])
    try:
        eval_prog(loaded[0], st)
    finally:
        batch.close()
    return [v['detail'] for v in st.viol] or None
