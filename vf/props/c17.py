"""C17 -- concurrent signature retrieval gives the sequential answer.

Engine E5 (vf/sched.py): two / three real threads, each retrieving a signature
of shared objects, under a deterministic scheduler; every interleaving with at
most two pre-emptions at line granularity inside sigtools code.  Oracle: every
thread's result equals what the same call returns when run alone on fresh
objects; at quiescence every shared object has the attributes it started with
and the as_forged guard is empty."""
import gc
import inspect
import itertools
import sys

import sigtools
from sigtools import specifiers

from vf import runner, progs, sched, alg
from vf.props import c16

PROP = 'C17'

# ---------------------------------------------------------------------------
# every execution starts from the same world: module-level state of sigtools (containers and plain values) is put back
# to what it was when the library was imported, so that a schedule determines its execution

import sigtools.modifiers, sigtools.wrappers, sigtools.signatures, sigtools.support  # noqa: E401,E402  (complete the import)


def _snapshot_world():
    snap = []
    for name, mod in sorted(sys.modules.items()):
        if mod is None or not (name == 'sigtools' or name.startswith('sigtools.')) or '.tests' in name:
            continue
        for attr, val in list(vars(mod).items()):
            if attr.startswith('__'):
                continue
            if type(val) in (dict, list, set):
                snap.append((mod, attr, val, type(val)(val)))
            elif type(val) in (int, bool, float):
                snap.append((mod, attr, None, val))
            elif isinstance(val, type) and getattr(val, '__module__', None) == name:
                # containers kept on the classes the module defines are process-wide state just the same
                for cattr, cval in list(vars(val).items()):
                    if not cattr.startswith('__') and type(cval) in (dict, list, set):
                        snap.append((val, cattr, cval, type(cval)(cval)))
    return snap


_WORLD = _snapshot_world()


def reset_world():
    for mod, attr, container, saved in _WORLD:
        if container is None:
            if vars(mod).get(attr) != saved:
                setattr(mod, attr, saved)
        elif vars(mod).get(attr) is not container:
            setattr(mod, attr, container)
            container.clear()
            (container.extend if type(container) is list else container.update)(saved)
        elif type(container) is list:
            if container != saved:
                container[:] = saved
        elif container != saved:
            container.clear()
            container.update(saved)
    guard_reset()

SCENARIO_SRC = '''
import functools
from sigtools import specifiers, modifiers, wrappers


def inner(x, y=2, *, z=3):
    return x


def inner_two(p, q=2):
    return p


def make_wraps():
    @functools.wraps(inner)
    def w(a, *args, **kwargs):
        return inner(*args, **kwargs)
    return {'targets': [w, w, w], 'roots': [w, inner]}


def make_related():
    @functools.wraps(inner)
    def w1(a, *args, **kwargs):
        return inner(*args, **kwargs)

    @functools.wraps(w1)
    def w2(b, *args, **kwargs):
        return w1(*args, **kwargs)
    return {'targets': [w2, w1, w2], 'roots': [w2, w1, inner]}


class AsForgedClass(object):
    __signature__ = specifiers.as_forged

    @specifiers.forwards_to_method('method')
    def __call__(self, x, *args, **kwargs):
        return self.method(*args, **kwargs)

    def method(self, a, b, c=1):
        return a


def make_forged():
    cls = type('AsForgedCopy', (AsForgedClass,), {'__signature__': specifiers.as_forged})
    inst = cls()
    return {'targets': [inst, inst, inst], 'roots': [inst, cls]}


def make_forged2():
    @specifiers.forwards_to_function(inner, emulate=True)
    def first(a, *args, **kwargs):
        return inner(*args, **kwargs)

    @specifiers.forwards_to_function(inner_two, emulate=True)
    def second(b, *args, **kwargs):
        return inner_two(*args, **kwargs)
    return {'targets': [first, second, first], 'roots': [first, second]}


def make_fwrap():
    class K(object):
        def inner(self, x, y=2):
            return x

        @specifiers.forwards_to_method('inner', emulate=True)
        def w(self, a, *args, **kwargs):
            return self.inner(*args, **kwargs)
    inst = K()
    return {'targets': [lambda: inst.w, lambda: inst.w, lambda: inst.w], 'roots': [inst, K, K.__dict__['w']], 'lazy': True}


def make_transform():
    class K(object):
        @specifiers.forwards_to_function(inner, emulate=True)
        def __init_subclass__(cls, *args, **kwargs):
            return inner(*args, **kwargs)
    return {'targets': [lambda: K.__init_subclass__, lambda: K.__init_subclass__, lambda: K.__init_subclass__],
            'roots': [K, K.__dict__['__init_subclass__']], 'lazy': True}


def make_pok():
    class K(object):
        @modifiers.kwoargs('b')
        def m(self, a, b=1, *args, **kwargs):
            return inner(*args, **kwargs)
    inst = K()
    return {'targets': [lambda: inst.m, lambda: inst.m, lambda: inst.m], 'roots': [inst, K, K.__dict__['m']], 'lazy': True}


def make_pok2():
    class K(object):
        def __init__(self, impl):
            self.impl = impl

        @modifiers.kwoargs('flag')
        @specifiers.forwards_to_method('impl')
        def run(self, flag, *args, **kwargs):
            return self.impl(*args, **kwargs)
    a, b = K(inner), K(inner_two)
    return {'targets': [lambda: a.run, lambda: b.run, lambda: a.run], 'roots': [a, b, K, K.__dict__['run']], 'lazy': True}


def chain_end(z, *, flag=False):
    return z


def link01(p01, *args, **kwargs):
    return link02(*args, **kwargs)

def link02(p02, *args, **kwargs):
    return link03(*args, **kwargs)

def link03(p03, *args, **kwargs):
    return link04(*args, **kwargs)

def link04(p04, *args, **kwargs):
    return link05(*args, **kwargs)

def link05(p05, *args, **kwargs):
    return link06(*args, **kwargs)

def link06(p06, *args, **kwargs):
    return link07(*args, **kwargs)

def link07(p07, *args, **kwargs):
    return link08(*args, **kwargs)

def link08(p08, *args, **kwargs):
    return link09(*args, **kwargs)

def link09(p09, *args, **kwargs):
    return link10(*args, **kwargs)

def link10(p10, *args, **kwargs):
    return link11(*args, **kwargs)

def link11(p11, *args, **kwargs):
    return link12(*args, **kwargs)

def link12(p12, *args, **kwargs):
    return link13(*args, **kwargs)

def link13(p13, *args, **kwargs):
    return link14(*args, **kwargs)

def link14(p14, *args, **kwargs):
    return link15(*args, **kwargs)

def link15(p15, *args, **kwargs):
    return link16(*args, **kwargs)

def link16(p16, *args, **kwargs):
    return link17(*args, **kwargs)

def link17(p17, *args, **kwargs):
    return link18(*args, **kwargs)

def link18(p18, *args, **kwargs):
    return link19(*args, **kwargs)

def link19(p19, *args, **kwargs):
    return link20(*args, **kwargs)

def link20(p20, *args, **kwargs):
    return chain_end(*args, **kwargs)


def make_deepchain():
    # a forwarding chain of 20 links: each thread follows it to the end
    return {'targets': [link01, link01, link01], 'roots': [link01, link10, link20, chain_end]}


def mutual_f(a, *args, **kwargs):
    return mutual_g(*args, **kwargs)


def mutual_g(b, *args, **kwargs):
    return mutual_f(*args, **kwargs)


def make_mutual():
    # two functions forwarding to each other, each thread asks for one of them
    return {'targets': [mutual_f, mutual_g, mutual_f], 'roots': [mutual_f, mutual_g]}


def make_forger_shared():
    # one forwards_to_method declaration reached through an instance of the class and one of a subclass overriding the target
    class Ham(object):
        def egg(self, a, b):
            return a

        @specifiers.forwards_to_method('egg')
        def spam(self, c, *args, **kwargs):
            return getattr(self, 'e' + 'gg')(*args, **kwargs)

    class Sub(Ham):
        def egg(self, x, y, z):
            return x
    ham, sub = Ham(), Sub()
    return {'targets': [lambda: ham.spam, lambda: sub.spam, lambda: Ham.spam], 'roots': [ham, sub, Ham, Sub, Ham.__dict__['spam']],
            'lazy': True}


def cf_callee(a, b, *, c=None):
    return a


def make_cachefill():
    # one thread asks again for a signature that was retrieved before, the other retrieves the signatures of 130
    # functions nobody has looked at yet (no source available: built by exec)
    def outer(x, *args, **kwargs):
        return cf_callee(*args, **kwargs)
    ns = {}
    for i in range(130):
        exec('def g%d(q%d, *args, **kwargs):\\n    return 0\\n' % (i, i), ns)
    fresh = [ns['g%d' % i] for i in range(130)]
    from sigtools import specifiers as _sp
    _sp.signature(outer)
    return {'targets': [outer, fresh, outer], 'roots': [outer, cf_callee], 'many': [False, True, False]}


def deco(func, d, *args, **kwargs):
    return func(*args, **kwargs)


def make_decorator():
    class K(object):
        @wrappers.decorator(deco)
        def m(self, q, r=1):
            return q
    inst = K()
    return {'targets': [lambda: inst.m, lambda: K.m, lambda: inst.m], 'roots': [inst, K, K.__dict__['m']], 'lazy': True}
'''

# scenario -> retrievers per thread
SCENARIOS = {
    'wraps': ('sigtools', 'sigtools', 'sigtools'),
    'mixed': ('sigtools', 'inspect', 'sigtools'),
    'related': ('sigtools', 'sigtools', 'inspect'),
    'forged': ('inspect', 'inspect', 'sigtools'),
    'forged2': ('inspect', 'inspect', 'inspect'),
    'fwrap': ('sigtools', 'inspect', 'sigtools'),
    'transform': ('sigtools', 'sigtools', 'inspect'),
    'pok': ('sigtools', 'sigtools', 'inspect'),
    'pok2': ('sigtools', 'sigtools', 'inspect'),
    'decorator': ('sigtools', 'inspect', 'sigtools'),
    'mutual': ('sigtools', 'sigtools', 'sigtools'),
    'forger_shared': ('sigtools', 'sigtools', 'sigtools'),
    'deepchain': ('sigtools', 'sigtools', 'sigtools'),
    'cachefill': ('sigtools', 'sigtools', 'sigtools'),
}
# scenarios with one long-running thread: it is only ever entered by pre-empting the others (start orders that begin
# with another thread); the orders starting with it are explored by the thorough tier
LONG_THREAD = {'cachefill': 1}
FACTORY = {'mixed': 'wraps'}
RETR = {'sigtools': sigtools.signature, 'inspect': inspect.signature}
_MOD = {}


def module():
    if 'm' not in _MOD:
        b = progs.Batch(prelude='')
        b.add(SCENARIO_SRC, 60)
        b.load()
        _MOD['m'], _MOD['b'] = b.modules[0], b
    return _MOD['m']


def render(sig):
    src = getattr(sig, 'sources', None)
    if src is None:
        return (str(sig), None)
    return (str(sig), tuple(sorted((k, tuple(sorted(getattr(f, '__name__', type(f).__name__) for f in v))) if k != '+depths'
                                   else (k, tuple(sorted((getattr(f, '__name__', type(f).__name__), d) for f, d in v.items())))
                                   for k, v in src.items())))


def build(scen, nthreads):
    reset_world()
    fac = getattr(module(), 'make_' + FACTORY.get(scen, scen))()
    retr = SCENARIOS[scen]
    bodies = []
    for i in range(nthreads):
        tgt = fac['targets'][i]
        fn = RETR[retr[i]]
        if fac.get('many') and fac['many'][i]:
            bodies.append(lambda tgt=tgt, fn=fn: (tuple(render(fn(g))[0] for g in tgt), ('guard-left', guard_size())))
        elif fac.get('lazy'):
            bodies.append(lambda tgt=tgt, fn=fn: (render(fn(tgt())), ('guard-left', guard_size())))
        else:
            bodies.append(lambda tgt=tgt, fn=fn: (render(fn(tgt)), ('guard-left', guard_size())))
    return bodies, fac


def guard_size():
    try:
        return len(specifiers.as_forged.currently_computing)
    except Exception:
        return -1


def guard_reset():
    g = specifiers.as_forged.currently_computing
    try:
        g.clear()
    except AttributeError:
        try:
            specifiers.as_forged.currently_computing = type(g)()
        except Exception:
            pass


def alone(scen, nthreads, perturb=None, root=None):
    """What each thread's call returns when run alone on fresh objects -- optionally in a perturbed world that models a
    known race window on the ``root``-th shared object: 'wrapped-hidden' = its __wrapped__ is moved aside by somebody
    else; 'cleanup-noop' = its __wrapped__ reappears under the reader, as if nothing had been moved aside."""
    from sigtools import _autoforwards
    out = []
    for i in range(nthreads):
        bodies, fac = build(scen, nthreads)
        orig_enter = _autoforwards.cleanup_functools_wrapper.__enter__
        try:
            if perturb is not None:
                if root >= len(fac['roots']):
                    out.append(None)
                    continue
                victim = fac['roots'][root]
                if perturb == 'wrapped-hidden':
                    d = getattr(victim, '__dict__', None)
                    if isinstance(d, dict):
                        d.pop('__wrapped__', None)
                elif perturb == 'cleanup-noop':
                    def enter(self, victim=victim, orig=orig_enter):
                        if self.func is victim:
                            self.saved_attrs = {}
                            return None
                        return orig(self)
                    _autoforwards.cleanup_functools_wrapper.__enter__ = enter
            try:
                out.append(('ok', bodies[i]()))
            except BaseException as e:  # noqa
                out.append(('raise', type(e).__name__, str(e)[:200]))
        finally:
            _autoforwards.cleanup_functools_wrapper.__enter__ = orig_enter
            guard_reset()
    return out


def sequential_state(scen, nthreads):
    """Attribute changes the same calls leave behind when run one after the other, twice (lazy initialisation is not a race)."""
    bodies, fac = build(scen, nthreads)
    before = c16.reach(fac['roots'])
    for b in list(bodies) + list(bodies):
        try:
            b()
        except BaseException:  # noqa
            pass
    return sorted(set(c16.diff_reach(before, c16.reach(fac['roots']))))


class Checker(object):
    def __init__(self, scen, nthreads, st, tag=None):
        self.scen, self.n, self.st, self.tag = scen, nthreads, st, tag
        self.ref = alone(scen, nthreads)
        self.known = []
        for root in range(3):
            self.known.append(('wrapped-hidden-window', alone(scen, nthreads, 'wrapped-hidden', root)))
            self.known.append(('wrapped-restored-under-reader', alone(scen, nthreads, 'cleanup-noop', root)))
        self.seq_state = sequential_state(scen, nthreads)

    def __call__(self, ex, fac, schedule):
        st = self.st
        st.inc('states')
        st.inc('transitions', ex.npoints)
        outcome = tuple(ex.results)
        st.seen('outcome', (self.scen, outcome))
        st.seen('outcome_by_run', (self.scen, self.n, self.tag, outcome))
        prio, pre = schedule
        case = {'scenario': self.scen, 'threads': self.n, 'priority': list(prio),
                'preemptions': [[idx, tgt, [run, list(lbl)]] for idx, tgt, (run, lbl) in pre]}
        for i, r in enumerate(ex.results):
            if r != self.ref[i]:
                cause = 'other'
                for name, alt in self.known:
                    if alt[i] is not None and r == alt[i] and alt[i] != self.ref[i]:
                        cause = name
                st.violation('thread-result-differs-from-sequential', case,
                             {'scenario': self.scen, 'thread': i, 'retriever': SCENARIOS[self.scen][i],
                              'concurrent': repr(r)[:300], 'alone': repr(self.ref[i])[:300],
                              'schedule': {'start_order': list(prio), 'preemptions': [
                                  {'at_point': idx, 'running_thread': run, 'line': '%s:%d' % lbl, 'switch_to': tgt}
                                  for idx, tgt, (run, lbl) in pre]}},
                             {'cause': cause})
                break
        # quiescence: the same calls, run once more one after the other, must give the sequential answers
        for i, b in enumerate(fac.get('_bodies', ())):
            try:
                r = ('ok', b())
            except BaseException as e:  # noqa
                r = ('raise', type(e).__name__, str(e)[:200])
            if r != self.ref[i]:
                st.violation('answer-after-quiescence-differs', case,
                             {'scenario': self.scen, 'thread_body': i, 'after_quiescence': repr(r)[:300], 'alone': repr(self.ref[i])[:300],
                              'schedule': case['preemptions']}, {})
                break
        after = c16.reach(fac['roots'])
        probs = sorted(set(c16.diff_reach(fac['_before'], after)))
        if guard_size() != 0:
            probs.append('as_forged recursion guard of the controlling thread not empty at quiescence')
            guard_reset()
        if probs != self.seq_state:
            st.violation('state-changed-at-quiescence', case,
                         {'scenario': self.scen, 'attribute_changes': probs[:5], 'after_sequential_run': self.seq_state[:5],
                          'schedule': case['preemptions']}, {})


def shard(tier, sh):
    scen, nthreads, pointset, bound, prio, lo, hi = sh
    st = runner.Stats()
    s = sched.Scheduler(nthreads, pointset)
    chk = Checker(scen, nthreads, st, (pointset, bound))

    def make():
        bodies, fac = build(scen, nthreads)
        fac['_before'] = c16.reach(fac['roots'])
        fac['_bodies'] = bodies
        return bodies, fac
    n = sched.explore(s, make, chk, bound, priorities=[tuple(prio)], first_range=(lo, hi), stats=st)
    st.inc('executions', n)
    if lo == 0 and tuple(prio) == tuple(range(nthreads)):
        st.sample({'scenario': scen, 'threads': nthreads, 'point_set': pointset, 'bound': bound,
                   'sequential_results': [repr(r)[:120] for r in chk.ref]}, 1)
    gc.collect()
    return st


def plan(tier):
    """(scenario, threads, point set, bound) runs."""
    runs = []
    if tier == 'quick':
        for scen in SCENARIOS:
            # 'decorator' has twice the critical points of any other scenario: its two-pre-emption run is the thorough tier's
            runs.append((scen, 2, 'critical', 1 if scen in ('decorator', 'mutual', 'forger_shared') else 2))
            runs.append((scen, 2, 'shared', 1))
        for scen in ('wraps', 'forged2', 'pok', 'mutual', 'forger_shared'):
            runs.append((scen, 2, 'all', 1))          # reduction validation; 'pok': the walk over a shared parsed source
            if scen in ('wraps', 'forged2'):
                runs.append((scen, 3, 'critical', 1))
        runs = [r for r in runs if r[0] not in ('deepchain', 'cachefill')]
        runs.append(('deepchain', 2, 'critical', 1))
        runs.append(('cachefill', 2, 'shared', 1))
    else:
        for scen in SCENARIOS:
            if scen in ('deepchain', 'cachefill'):
                continue
            runs.append((scen, 2, 'shared', 2))
            runs.append((scen, 2, 'critical', 2))
            runs.append((scen, 2, 'all', 1))
            runs.append((scen, 3, 'critical', 2))
        # the two long scenarios (thousands of scheduling points per execution): one pre-emption, every start order
        runs += [('deepchain', 2, 'all', 1), ('deepchain', 2, 'shared', 1), ('deepchain', 3, 'critical', 1),
                 ('cachefill', 2, 'shared', 1), ('cachefill', 2, 'critical', 1)]
    return runs


def shards_for(tier):
    out = []
    for scen, n, ps, bound in plan(tier):
        s = sched.Scheduler(n, ps)
        for prio in itertools.permutations(range(n)):
            if tier == 'quick' and LONG_THREAD.get(scen) == prio[0]:
                continue
            bodies, fac = build(scen, n)
            ex = s.run(bodies, prio, [])
            total = len(ex.trace)
            # with two threads nothing can be pre-empted once the first one has finished: the ranges divide its points
            npts = ex.finished_at[prio[0]] if n == 2 else total
            per_exec = total / 1000.0       # longer executions, smaller pieces
            pieces = max(1, min(48, npts // 6)) if bound >= 2 else max(1, min(32, int(npts * max(1.0, per_exec) // 100)))
            cuts = [0]
            for k in range(1, pieces):
                frac = k / float(pieces)
                cut = int(npts * (1 - (1 - frac) ** 0.5)) if bound >= 2 else int(npts * frac)
                if cut > cuts[-1]:
                    cuts.append(cut)
            cuts.append(total)
            for lo, hi in zip(cuts, cuts[1:]):
                out.append((scen, n, ps, bound, prio, lo, hi))
    # the long executions first: the pool then fills the gaps with the short ones
    out.sort(key=lambda sh_: 0 if sh_[0] in ('cachefill', 'deepchain') else 1)
    return out


def run(tier, seed):
    shards = shards_for(tier)
    st = runner.run_shards(__name__, 'shard', tier, shards, seed)
    # reduction check: an outcome reachable only by pre-empting outside the shared point set is a harness error
    by = {}
    for scen, outcome in st.distinct.get('outcome', ()):
        by.setdefault(scen, set()).add(outcome)
    per_run = {}
    for scen, n, tag, outcome in st.distinct.get('outcome_by_run', ()):
        per_run.setdefault((scen, n), {}).setdefault(tag, set()).add(outcome)
    order = {'critical': 0, 'shared': 1, 'all': 2}
    reduction_checks = 0
    for (scen, n), runs_ in per_run.items():
        for (ps1, b1), o1 in runs_.items():
            for (ps2, b2), o2 in runs_.items():
                if order[ps1] > order[ps2] and b1 <= b2:
                    reduction_checks += 1
                    extra = o1 - o2
                    unlisted = any(v['case'].get('scenario') == scen and v.get('features', {}).get('cause', 'other') == 'other'
                                   for v in st.viol)
                    if extra and unlisted:
                        # the tree under test has a violation of its own in this scenario: that is the verdict to report;
                        # shared state the point sets do not know about is expected then
                        st.notes.append('reduction check skipped for %s: unlisted violations present' % scen)
                    elif extra:
                        raise runner.HarnessError(
                            'partial-order reduction unsound for scenario %s (%d threads): point set %r (bound %d) reaches '
                            'an outcome that point set %r (bound %d) does not: %r' % (scen, n, ps1, b1, ps2, b2, sorted(extra)[:1]))
    coverage = {
        'exhaustive': True,
        'states': st.c.get('states', 0),
        'transitions': st.c.get('transitions', 0),
        'traces_validated_against_impl': st.c.get('states', 0),
        'evaluations': st.c.get('states', 0),
        'distinct_nontrivial': len(st.distinct.get('outcome', ())),
        'runs': [{'scenario': s_, 'threads': n, 'point_set': ps, 'preemption_bound': b} for s_, n, ps, b in plan(tier)],
        'distinct_outcomes_per_scenario': dict((k, len(v)) for k, v in by.items()),
        'reduction_checks_passed': reduction_checks,
        'rule': 'states = complete executions (schedules): every start order x every set of <= bound pre-emptions at line '
                'granularity inside sigtools code, each run on fresh shared objects with real threads under the baton scheduler '
                '(every schedule is an execution of the implementation: traces_validated_against_impl = states); transitions = '
                'scheduling points passed; point set "shared" = lines of the functions that touch state another thread can reach '
                '(partial-order reduction), "all" = every sigtools line; distinct_nontrivial = distinct tuples of thread outcomes',
        'bound': 'quick: 2 threads <= 2 pre-emptions on 9 scenarios (shared points), all points with 1 pre-emption on 2 scenarios, '
                 '3 threads 1 pre-emption on 2 scenarios; thorough: 3 threads <= 2 pre-emptions everywhere, all-points runs on every scenario',
    }
    assumptions = [
        'scheduling granularity: line events of code objects under /repo/sigtools (the property\'s own quantifier); interleavings inside one line or inside CPython are not explored',
        'sigtools takes no locks and never waits: no blocking to model; a thread that finishes hands over for free',
    ]
    return st, coverage, assumptions


def replay(art):
    c = art['case']
    st = runner.Stats()
    n = c['threads']
    s = sched.Scheduler(n, 'all')
    s2 = sched.Scheduler(n, 'shared')
    chk = Checker(c['scenario'], n, st)
    pre = [(idx, tgt, (run, tuple(lbl))) for idx, tgt, (run, lbl) in c['preemptions']]
    for sc in (s2, s):
        bodies, fac = build(c['scenario'], n)
        fac['_before'] = c16.reach(fac['roots'])
        try:
            ex = sc.run(bodies, tuple(c['priority']), pre)
        except sched.Diverged:
            continue
        chk(ex, fac, (tuple(c['priority']), pre))
        break
    return runner.fresh_details('C17', st) or None
