"""C15 part B (engine E3): "signature retrieval turns such failures into its fallback".

Every S1 program whose written forwarding call cannot be honoured by the callee (too many positionals, unknown
keyword, incompatible embed, ...) -- and every other S1 program too -- is retrieved: nothing may escape, and where
the declaration is impossible the result must be the plain signature."""
from vf import alg, runner, grammar, discovery, slices

CHUNK = 500


def eval_prog(ld, st):
    pr = ld.prog
    case = {'op': 'program', 'program': grammar.to_json(pr)}
    st.inc('states')
    exps, why = discovery.expected(ld)
    status, sig = discovery.retrieve(ld)
    st.inc('transitions')
    if why.startswith('algebra-raises-'):
        st.violation('non-valueerror-escapes', case,
                     {'program': discovery.show_prog(ld), 'operation': 'forwards / merge for the written call',
                      'exception': why[len('algebra-raises-'):]}, {'exception': why[len('algebra-raises-'):]})
    if status != 'ok':
        st.violation('retrieval-lets-algebra-failure-escape', case,
                     {'program': discovery.show_prog(ld), 'error': '%s: %s' % (type(sig).__name__, sig),
                      'expected_fallback': str(exps[0])}, {'exception': type(sig).__name__})
        return
    bad = alg.well_formed(sig)
    if bad:
        st.violation('retrieval-returns-malformed-signature', case, {'program': discovery.show_prog(ld), 'problem': bad}, {})
        return
    if why == 'declaration-impossible':
        st.inc('fallbacks_checked')
        st.seen('outcome', ('fallback', pr.outer, pr.calls[0].callee))
        if alg.params_key(sig) != alg.params_key(exps[0]):
            st.violation('fallback-is-not-the-plain-signature', case,
                         {'program': discovery.show_prog(ld), 'reported': str(sig), 'plain': str(exps[0])}, {})


def shard(tier, sh):
    i0, i1 = sh
    plist = slices.s1(tier)[i0:i1]
    st = runner.Stats()
    batch, loaded = discovery.load(plist, uid_base=i0)
    try:
        for ld in loaded:
            eval_prog(ld, st)
        if loaded:
            st.sample({'part': 'B (retrieval fallback)', 'program': discovery.show_prog(loaded[0])}, 1)
    finally:
        batch.close()
    return st


def run_part(tier, seed):
    n = len(slices.s1('quick'))      # the quick S1 slice in both tiers (C05/C06 cover the wider ones)
    shards = [(i, min(n, i + CHUNK)) for i in range(0, n, CHUNK)]
    st = runner.run_shards(__name__, 'shard', 'quick', shards, seed)
    return st, {'part_B': 'retrieval fallback: %d forwarding programs (slice S1) retrieved; %d of them declare a forwarding '
                          'the callee cannot honour and must fall back to the plain signature' % (n, st.c.get('fallbacks_checked', 0))}


def replay(art):
    pr = grammar.from_json(art['case']['program'])
    st = runner.Stats()
    batch, loaded = discovery.load([pr])
    try:
        eval_prog(loaded[0], st)
    finally:
        batch.close()
    return [v['detail'] for v in st.viol] or None
