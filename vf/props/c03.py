"""C03 -- mask exactness, order independence, laws and hide_* flags (engine E1)."""
import itertools

from sigtools import signatures as S

from vf import space, alg, runner
from vf.binder import Alphabet
from vf.space import PO, POK, VA, KWO, VK, show, shape_of, valid_shape

PROP = 'C03'
FLAGS = ('hide_args', 'hide_kwargs', 'hide_varargs', 'hide_varkwargs')
import inspect as _inspect
KWO_KIND = _inspect.Parameter.KEYWORD_ONLY
_SL = {}


def slices(tier):
    """name -> (pool, universe, max tuple length, with_flags)"""
    if tier in _SL:
        return _SL[tier]
    out = {
        'S2-flags': ('abc', space.universe(2, 'abc'), 2, True),
        'S3-noflags': ('abc', space.universe(3, 'abc'), 3, False),
    }
    if tier == 'thorough':
        out['S3-flags'] = ('abc', space.universe(3, 'abc'), 3, True)
        out['S4-noflags'] = ('abcd', [s for s in space.universe(4, 'abcd', min_named=4) if space.name_sorted(s)], 4, False)
    _SL[tier] = out
    return out


def shards(tier):
    out = [('history', 0, 0)]
    for name, (_, u, _, _) in slices(tier).items():
        per = max(1, len(u) // 48)
        for i in range(0, len(u), per):
            out.append((name, i, min(len(u), i + per)))
    return out


_ALPHA = {}


def alphabet(pool):
    if pool not in _ALPHA:
        k = len(pool)
        _ALPHA[pool] = Alphabet(tuple(pool) + ('args', 'kwargs', 'zz', 'yy'), 2 * k + 3)
    return _ALPHA[pool]


def name_menu(shape):
    return [p[0] for p in shape if p[1] != PO] + ['zz']


def close_up_keywords(alpha, bits):
    """D[(n,K)] = OR over K' superset of K of bits[(n,K')]."""
    kc = alpha.kcount
    for i in range(alpha.m):
        without = alpha.all_n(alpha.sub[(kc - 1) & ~(1 << i)])
        bits |= (bits >> (1 << i)) & without
    return bits


def close_up_positionals(alpha, bits):
    """D[(n,K)] = OR over n' >= n of bits[(n',K)]."""
    kc = alpha.kcount
    for _ in range(alpha.nmax):
        bits |= bits >> kc
    return bits


def shift(alpha, bits, n, E):
    """(m,K), K disjoint from E  ->  bits[(m+n, K|E)]"""
    kc = alpha.kcount
    return ((bits >> (n * kc)) >> E) & alpha.all_n(alpha.sub[(kc - 1) & ~E])


def blocks(alpha, upto):
    return (1 << ((upto + 1) * alpha.kcount)) - 1 if upto >= 0 else 0


def kwo_insensitive(sig):
    """Parameters as inspect.Signature.__eq__ compares them: keyword-only parameters without their order."""
    key = alg.params_key(sig)
    kwo = int(KWO_KIND)
    return tuple(p for p in key if p[1] != kwo), frozenset(p for p in key if p[1] == kwo)


def do_mask(sig, n, names, flags):
    return alg.outcome(S.mask, sig, n, *names, **flags)


def eval_case(alpha, s, n, names, flagbits, st, cache=None):
    """All C03 clauses for one (signature, n, ordered names, flags)."""
    sig = alg.sig_of(s)
    flags = dict((f, True) for i, f in enumerate(FLAGS) if flagbits >> i & 1)
    status, res = do_mask(sig, n, names, flags)
    st.inc('transitions')
    case = {'op': 'mask', 'sig': space.to_json(s), 'n': n, 'names': list(names), 'flags': sorted(flags),
            'alphabet': [list(alpha.names), alpha.nmax]}

    def viol(kind, **detail):
        d = {'sig': show(s), 'n': n, 'names': list(names), 'flags': sorted(flags),
             'outcome': alg.sig_str(res) if status == 'ok' else '%s: %s' % (type(res).__name__, res)}
        d.update(detail)
        st.violation(kind, case, d, {'flags': bool(flags)})
        return d

    if status == 'other':
        st.inc('raised:other(C15)')
        return None
    E = alpha.mask(names)
    accs = alpha.acc(s)
    disj = alpha.kw_disjoint(names)
    excl_s = alpha.excluded(s)
    st.inc('evaluations', alpha.size)
    if not flags:
        key = (s, n, E)
        if cache is not None and key in cache:
            want = cache[key]
        else:
            want = shift(alpha, accs, n, E) & blocks(alpha, alpha.nmax - n)
            if cache is not None:
                cache[key] = want
        exist = want & disj & ~excl_s
        if status != 'ok':
            st.inc('raised')
            st.seen('outcome', ('raise', s, n, E))
            if exist:
                m, K = alpha.first(exist)
                return viol('mask-wrong-raise', witness={'extra_positionals': m, 'extra_keywords': K},
                            clause='raises ValueError although sig can be passed those arguments')
            return None
        r = shape_of(res)
        if not valid_shape(r):
            st.inc('malformed-result(C15)')
            return None
        st.seen('result', r)
        if r != s:
            st.inc('nontrivial')
        if not exist:
            return viol('mask-missing-raise', clause='returns although sig cannot be passed those arguments at all')
        dom = (blocks(alpha, alpha.nmax - n) & disj & alpha.noncolliding(r, [s])
               & ~excl_s & ~alpha.excluded(r))
        diff = (alpha.acc(r) ^ want) & dom
        if diff:
            m, K = alpha.first(diff)
            return viol('mask-inexact', call={'positionals': m, 'keywords': K},
                        result_accepts=bool(alpha.acc(r) & alpha.call_bit(m, K)),
                        clause='result accepts (m,K) iff sig accepts (n+m, names+K)')
        return None
    # ---- with hide_* flags ------------------------------------------------
    ha_, hk_ = bool(flagbits & 1), bool(flagbits >> 1 & 1)
    if not ha_ and not hk_:
        # hide_varargs / hide_varkwargs only drop a star parameter from the *result*: whether sig can be passed the
        # arguments is decided exactly as without them
        bstat, _ = do_mask(sig, n, names, {})
        if (bstat == 'ok') != (status == 'ok'):
            return viol('mask-flag-changes-raising', without_flags='returns' if bstat == 'ok' else 'raises',
                        clause='hide_varargs / hide_varkwargs only remove the star parameter; raising is decided as without them')
    if status != 'ok':
        st.inc('raised(flags)')
        return None
    r = shape_of(res)
    if not valid_shape(r):
        st.inc('malformed-result(C15)')
        return None
    st.seen('result', r)
    if r != s:
        st.inc('nontrivial')
    ha, hk, hva, hvk = (bool(flagbits >> i & 1) for i in range(4))
    for name, kind, _ in r:
        if (ha and kind in (PO, POK, VA)) or (hk and kind in (POK, KWO, VK)) \
                or (hva and kind == VA) or (hvk and kind == VK):
            return viol('mask-flag-not-hidden', parameter=name, clause='hide_* flag leaves a parameter it must remove')
    # base the flags are compared with: the unflagged result for the same arguments; under hide_kwargs the
    # names belong to the hidden keyword arguments (they are documented not to be looked at), so the base is
    # taken without them; when that raises, the signature itself
    bstatus, base = do_mask(sig, n, () if hk else names, {})
    base_params = list((base if bstatus == 'ok' else sig).parameters.values())
    it = iter(base_params)
    for p in res.parameters.values():
        for q in it:
            if q.name == p.name:
                if (q.kind, q.default, q.annotation) != (p.kind, p.default, p.annotation) and not (
                        q.kind == q.POSITIONAL_OR_KEYWORD and p.kind in (p.POSITIONAL_ONLY, p.KEYWORD_ONLY)
                        and (q.default, q.annotation) == (p.default, p.annotation)):
                    return viol('mask-flag-changes-parameter', parameter=p.name,
                                clause='flags only ever remove parameters')
                break
        else:
            return viol('mask-flag-adds-parameter', parameter=p.name, base=alg.sig_str(base) if bstatus == 'ok' else show(s),
                        clause='flags only ever remove parameters')
    # every accepted call extends to one sig accepts, for some choice of the hidden arguments
    T = accs
    if hk:
        T = close_up_keywords(alpha, T)
    if ha:
        T = close_up_positionals(alpha, T)
    n_eff = 0 if ha else n
    E_eff = 0 if hk else E
    want = shift(alpha, T, n_eff, E_eff)
    dom = (blocks(alpha, alpha.nmax - n_eff) & disj & alpha.noncolliding(r, [s]) & ~excl_s & ~alpha.excluded(r))
    bad = alpha.acc(r) & ~want & dom
    if bad:
        m, K = alpha.first(bad)
        return viol('mask-flag-unsound', call={'positionals': m, 'keywords': K},
                    clause='every call the result accepts is accepted by sig for some choice of the hidden arguments')
    return None


def law_checks(alpha, s, st):
    """mask(s,0) == s ; mask(mask(s,n),m) == mask(s,n+m)."""
    sig = alg.sig_of(s)
    P = len(space.positionals(s))
    status, r0 = do_mask(sig, 0, (), {})
    st.inc('transitions')
    case = {'op': 'mask-law', 'sig': space.to_json(s), 'alphabet': [list(alpha.names), alpha.nmax]}
    if status != 'ok' or alg.params_key(r0) != alg.params_key(sig) or r0.return_annotation != sig.return_annotation:
        st.violation('mask-zero-not-identity', dict(case, law='zero'), {'sig': show(s), 'result': alg.sig_str(r0) if status == 'ok' else repr(r0)})
    for n in range(P + 3):
        for m in range(P + 3 - n):
            s1, r1 = do_mask(sig, n, (), {})
            if s1 == 'ok':
                s2, r2 = do_mask(r1, m, (), {})
            else:
                s2, r2 = s1, r1
            s3, r3 = do_mask(sig, n + m, (), {})
            st.inc('transitions', 3)
            same = (s2 == 'ok') == (s3 == 'ok') and (s2 != 'ok' or alg.params_key(r2) == alg.params_key(r3))
            if not same:
                st.violation('mask-not-additive', dict(case, law='add', n=n, m=m),
                             {'sig': show(s), 'n': n, 'm': m,
                              'nested': alg.sig_str(r2) if s2 == 'ok' else repr(r2),
                              'direct': alg.sig_str(r3) if s3 == 'ok' else repr(r3)})


def order_check(alpha, s, n, names, flagbits, st):
    """Result for an ordering of names equals the result for the sorted one."""
    canon = tuple(sorted(names))
    if canon == tuple(names):
        return
    sig = alg.sig_of(s)
    flags = dict((f, True) for i, f in enumerate(FLAGS) if flagbits >> i & 1)
    s1, r1 = do_mask(sig, n, names, flags)
    s2, r2 = do_mask(sig, n, canon, flags)
    st.inc('transitions', 2)
    if s1 == 'other' or s2 == 'other':
        return
    same = (s1 == 'ok') == (s2 == 'ok') and (s1 != 'ok' or (
        kwo_insensitive(r1) == kwo_insensitive(r2)
        and sorted(k for k in r1.sources if k != '+depths') == sorted(k for k in r2.sources if k != '+depths')))
    if not same:
        st.violation('mask-order-dependent',
                     {'op': 'mask-order', 'sig': space.to_json(s), 'n': n, 'names': list(names), 'flags': sorted(flags),
                      'alphabet': [list(alpha.names), alpha.nmax]},
                     {'sig': show(s), 'n': n, 'names': list(names), 'flags': sorted(flags),
                      'this_order': alg.sig_str(r1) if s1 == 'ok' else repr(r1),
                      'sorted_order': alg.sig_str(r2) if s2 == 'ok' else repr(r2)},
                     {'flags': bool(flags)})


def history_world():
    sh = space.from_json
    mk = lambda text: alg.fresh_sig(SHAPES_BY_TEXT[text])
    return dict((t, mk(t)) for t in SHAPES_BY_TEXT)


def _shape(*params):
    return tuple(params)


from vf.space import PO as _PO, POK as _POK, VA as _VA, KWO as _KWO, VK as _VK  # noqa: E402
SHAPES_BY_TEXT = {
    'A': _shape(('k', _POK, False), ('b', _POK, False)),
    'B': _shape(('a', _POK, False), ('k', _KWO, False)),
    'C': _shape(('a', _POK, False), ('b', _POK, True), ('args', _VA, False), ('k', _KWO, False), ('opt', _KWO, True)),
    'D': _shape(('a', _POK, False), ('b', _POK, False), ('c', _POK, False), ('kwargs', _VK, False)),
}


def history_ops():
    ops = []
    for t in sorted(SHAPES_BY_TEXT):
        names = [p[0] for p in SHAPES_BY_TEXT[t] if p[1] not in (_VA, _VK)]
        for n in (0, 1):
            ops.append(('mask(%s, %d)' % (t, n), lambda w, t=t, n=n: S.mask(w[t], n)))
            for nm in names:
                ops.append(('mask(%s, %d, %r)' % (t, n, nm), lambda w, t=t, n=n, nm=nm: S.mask(w[t], n, nm)))
                ops.append(('mask(%s, %d, %r, hide_args=True)' % (t, n, nm),
                            lambda w, t=t, n=n, nm=nm: S.mask(w[t], n, nm, hide_args=True)))
        ops.append(('mask(%s, hide_args=True)' % t, lambda w, t=t: S.mask(w[t], hide_args=True)))
        ops.append(('mask(%s, hide_kwargs=True)' % t, lambda w, t=t: S.mask(w[t], hide_kwargs=True)))
    return ops


def shard(tier, sh):
    name, i0, i1 = sh
    if name == 'history':
        from vf import reuse
        st = runner.Stats()
        reuse.pairs(history_world, history_ops(), st, {'op': 'history'})
        st.c['cases'] = st.c.get('states', 0)
        return st
    pool, u, maxlen, with_flags = slices(tier)[name]
    alpha = alphabet(pool)
    st = runner.Stats()
    cache = {}
    for s in u[i0:i1]:
        P = len(space.positionals(s))
        menu = name_menu(s)
        st.inc('states')
        if not with_flags:
            law_checks(alpha, s, st)
        for n in range(P + 3):
            for ln in range(min(maxlen, len(menu)) + 1):
                for names in itertools.permutations(menu, ln):
                    for fb in (range(16) if with_flags else (0,)):
                        if with_flags and fb == 0 and name.endswith('-flags') and False:
                            continue
                        eval_case(alpha, s, n, names, fb, st, cache)
                        order_check(alpha, s, n, names, fb, st)
                        st.inc('cases')
        cache.clear()
        if len(st.samples) < 2 and len(s) >= 3:
            st.sample({'slice': name, 'sig': show(s), 'n': '0..%d' % (P + 2), 'names_menu': menu})
    st.inc('validated', alpha.validated)
    alpha.validated = 0
    return st


def run(tier, seed):
    sl = slices(tier)
    st = runner.run_shards(__name__, 'shard', tier, shards(tier), seed)
    coverage = {
        'exhaustive': True,
        'states': st.c.get('cases', 0),
        'transitions': st.c.get('transitions', 0),
        'traces_validated_against_impl': st.c.get('validated', 0),
        'evaluations': st.c.get('evaluations', 0),
        'distinct_nontrivial': len(st.distinct.get('result', ())) + len(st.distinct.get('outcome', ())),
        'rule': 'every signature of the slice universe x n in 0..P+2 x every duplicate-free ordered tuple (length <= '
                'bound) of names from {non-positional-only parameter names, star names, zz} x flag combinations x '
                'whole call alphabet (n<=2k+3, keywords from all names + zz + yy); distinct_nontrivial = distinct result '
                'shapes + distinct (sig,n,names) that raise',
        'slices': dict((k, {'signatures': len(v[1]), 'max_names_tuple': v[2], 'flag_combinations': 16 if v[3] else 1})
                       for k, v in sl.items()),
        'bound': 'k<=2 with all 16 flag combinations, k<=3 without flags, name tuples <=2/3 (quick); k<=3 all flags, '
                 'k=4 name-sorted without flags (thorough)',
    }
    assumptions = [
        'acceptance decided by binder model B, replayed against CPython for every shape used in this run',
        'the raise-iff clause is checked without hide_* flags only (with hide_kwargs the names are by design not looked at)',
        'names naming a positional-only parameter are excluded (as the property says)',
    ]
    return st, coverage, assumptions


def replay(art):
    case = art['case']
    if case.get('op') == 'history':
        from vf import reuse
        st = runner.Stats()
        reuse.pairs(history_world, [o for o in history_ops() if o[0] in (case['first'], case['second'])], st, {'op': 'history'})
        return [v['detail'] for v in st.viol] or None
    names, nmax = case['alphabet']
    alpha = Alphabet(tuple(names), nmax)
    s = space.from_json(case['sig'])
    st = runner.Stats()
    if case['op'] == 'mask':
        fb = sum(1 << FLAGS.index(f) for f in case['flags'])
        return eval_case(alpha, s, case['n'], tuple(case['names']), fb, st)
    if case['op'] == 'mask-order':
        fb = sum(1 << FLAGS.index(f) for f in case['flags'])
        order_check(alpha, s, case['n'], tuple(case['names']), fb, st)
    else:
        law_checks(alpha, s, st)
    return st.viol[0]['detail'] if st.viol else None
