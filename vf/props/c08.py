"""C08 -- provenance complete, truthful, depth-ordered.

Part A (engine E2): invariants in every state and on every transition of the algebra BFS.
Part B (engine E3): discovery results over the program grammar and modifiers wrappers (see vf/progs.py)."""
import collections
import inspect

from vf import space, alg, runner, terms
from vf.space import show, shape_of, role_consistent, VA, VK

PROP = 'C08'
NEEDS_SNAPSHOTS = False


def declares(f, name):
    sh = getattr(f, '_vf_shape', None)
    if sh is not None:
        return any(p[0] == name for p in sh)
    for getter in (lambda: inspect.signature(f, follow_wrapped=False), lambda: alg.S.signature(f)):
        try:
            if name in getter().parameters:
                return True
        except (ValueError, TypeError):
            pass
    return False


def state_problems(sig):
    """State invariant: list of (kind, detail-dict, features)."""
    out = []
    src = sig.sources
    names = [p.name for p in sig.parameters.values()]
    keys = set(k for k in src if k != '+depths')
    depths = src.get('+depths')
    if depths is None:
        out.append(('sources-no-depths', {}, {}))
        depths = {}
    missing = [n for n in names if n not in keys]
    extra = sorted(keys - set(names))
    if missing:
        out.append(('sources-missing-parameter', {'missing': missing}, {}))
    if extra:
        out.append(('sources-refers-to-absent-parameter', {'extra': extra}, {}))
    for n in names:
        lst = src.get(n)
        if lst is None:
            continue
        if not lst:
            out.append(('sources-empty-list', {'parameter': n}, {}))
        if len(set(map(id, lst))) != len(lst):
            out.append(('sources-duplicate', {'parameter': n, 'list': [terms.fn_label(f) for f in lst]}, None))
        for f in lst:
            if f not in depths:
                out.append(('source-without-depth', {'parameter': n, 'callable': terms.fn_label(f)}, {}))
            if not declares(f, n):
                out.append(('source-does-not-declare', {'parameter': n, 'callable': terms.fn_label(f)}, {}))
    for f, d in depths.items():
        if not isinstance(d, int) or d < 0:
            out.append(('depth-not-natural', {'callable': terms.fn_label(f), 'depth': d}, {}))
    return out


def named(sig):
    return [p.name for p in sig.parameters.values() if p.kind not in (p.VAR_POSITIONAL, p.VAR_KEYWORD)]


def min_depths(*maps):
    out = {}
    for m in maps:
        for f, d in m.items():
            if f not in out or d < out[f]:
                out[f] = d
    return out


def expected_lists(tr):
    """name -> list of (input index) contributing lists for non-star result parameters, or None when the
    property does not define it for this transition."""
    op = tr.op
    ins = tr.inputs
    res = tr.result
    exp = {}
    if op == 'merge':
        if not space.position_consistent([shape_of(s) for s in ins]):
            return None
        for x in named(res):
            exp[x] = [s.sources.get(x, []) for s in ins if x in named(s)]
        return exp
    if op in ('embed', 'forwards'):
        o, i = ins
        if set(named(o)) & set(named(i)):
            return None
        for x in named(res):
            exp[x] = [o.sources.get(x, [])] if x in named(o) else [i.sources.get(x, [])]
        return exp
    # unary operations: what remains keeps its list
    for x in named(res):
        exp[x] = [ins[0].sources.get(x, [])]
    return exp


def expected_depths(tr):
    op = tr.op
    d = [s.sources.get('+depths', {}) for s in tr.inputs]
    if op == 'merge':
        return min_depths(*d)
    if op in ('embed', 'forwards'):
        return min_depths(d[0], dict((f, v + 1) for f, v in d[1].items()))
    return dict(d[0])


def trans_check(tr, st):
    if tr.status != 'ok' or alg.well_formed(tr.result):
        return
    res = tr.result
    case = {'op': 'algebra-term', 'term': tr.term}

    def viol(kind, detail, features):
        d = {'term': terms.show_term(tr.term), 'result': alg.sig_str(res), 'sources': alg.src_show(res)}
        d.update(detail)
        st.violation(kind, case, d, features)

    exp = expected_lists(tr)
    for kind, detail, feat in state_problems(res):
        if kind == 'sources-duplicate':
            # classify: is the list exactly the concatenation of the contributing inputs' lists?
            x = detail['parameter']
            lists = [s.sources.get(x) for s in tr.inputs if s.sources.get(x)]
            got = collections.Counter(id(f) for f in res.sources[x])
            cause = 'other'
            for mask_ in range(1, 1 << len(lists)):
                sub = [lst for i, lst in enumerate(lists) if mask_ >> i & 1]
                if collections.Counter(id(f) for lst in sub for f in lst) == got:
                    cause = 'concatenation-of-input-lists'
                    break
            feat = {'cause': cause, 'origin': 'algebra'}
        viol(kind, detail, feat)
    if exp is not None:
        for x, lists in exp.items():
            want = set(id(f) for lst in lists for f in lst)
            got = set(id(f) for f in res.sources.get(x, []))
            if want != got:
                viol('sources-not-exactly-the-declaring-inputs',
                     {'parameter': x, 'expected': sorted(terms.fn_label(f) for lst in lists for f in lst)}, {})
                break
    wd = expected_depths(tr)
    gd = res.sources.get('+depths', {})
    if dict((id(f), v) for f, v in wd.items()) != dict((id(f), v) for f, v in gd.items()):
        viol('depths-rule', {'expected_depths': sorted((terms.fn_label(f), v) for f, v in wd.items())}, {})


def state_check(sig, term, st):
    # seeds (depth 0) only: results are checked by trans_check with their inputs at hand
    if term[0] != 'seed':
        return
    for kind, detail, feat in state_problems(sig):
        st.violation(kind, {'op': 'algebra-term', 'term': term},
                     dict(detail, term=terms.show_term(term), sources=alg.src_show(sig)), feat or {})


def run(tier, seed):
    st, levels, cfg = terms.explore(__name__, tier, seed)
    extra_cov = {}
    try:
        from vf.props import c08b
    except ImportError:
        c08b = None
    if c08b is not None:
        st2, extra_cov = c08b.run_part(tier, seed)
        st.merge(st2)
    coverage = {
        'exhaustive': True,
        'states': st.c.get('states', 0) + st.c.get('states_final_level', 0),
        'transitions': st.c.get('transitions', 0),
        'traces_validated_against_impl': st.c.get('transitions', 0),
        'evaluations': st.c.get('transitions', 0),
        'distinct_nontrivial': st.c.get('states_final_level', 0),
        'rule': 'breadth-first search over the real algebra: seeds = all signatures with <=1 named parameter over '
                '{a,b,c} with both star-name pairs (inner stars named like the outer included); transitions = merge/'
                'embed/forwards with every partner of the level menu on either side, mask with n<=2 x names x single '
                'flags, replace, evaluated, apply_params(sort_params); states deduplicated on a canonical form '
                '(parameters+metadata, provenance by callable label, depths); invariants on every transition result; '
                'every transition executes the real operation (no separate model: traces_validated_against_impl = '
                'transitions); distinct_nontrivial = distinct canonical states on the final level',
        'levels': levels,
        'bound': cfg.name,
    }
    coverage.update(extra_cov)
    assumptions = [
        '"declares a parameter of that name": per inspect.signature(member, follow_wrapped=False) or sigtools\' plain retrieval',
        'exact-list clause only for merge on role-consistent inputs and embed/forwards on inputs with disjoint named parameters',
        'depth rule checked per transition (merge: pointwise minimum; embed/forwards: inner shifted by one, minimum on collision; unary: unchanged)',
    ]
    return st, coverage, assumptions


def replay(art):
    case = art['case']
    if case.get('op') != 'algebra-term':
        from vf.props import c08b
        return c08b.replay(art)

    def tup(x):
        return tuple(tup(i) for i in x) if isinstance(x, list) else x
    term = tup(case['term'])
    st = runner.Stats()
    fix = _fix_term(term)
    if fix[0] == 'seed':
        state_check(terms.build(fix), fix, st)
    else:
        tr = terms.Transition()
        tr.term = fix
        tr.op = fix[0]
        tr.inputs = [terms.build(t) for t in terms.term_inputs(fix)]
        tr.pre = None
        tr.status, tr.result = alg.outcome(terms.apply_op, fix, tr.inputs)
        trans_check(tr, st)
    return runner.fresh_details('C08', st) or None


def _fix_term(term):
    """JSON round trip turns shapes into nested lists of [name, kind-int, bool]; restore tuples."""
    if term[0] == 'seed':
        return ('seed', tuple((n, k, bool(o)) for n, k, o in term[1]))
    out = [term[0]]
    for x in term[1:]:
        if isinstance(x, tuple) and x and isinstance(x[0], str) and x[0] in (
                'seed', 'merge', 'embed', 'forwards', 'mask', 'replace', 'evaluated', 'roundtrip'):
            out.append(_fix_term(x))
        else:
            out.append(x)
    return tuple(out)
