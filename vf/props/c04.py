"""C04 -- declared forwarding (forwards_to_*): the reported signature is safe to call.

Part A (engine E1): forwards(o, i, n, *names, flags) == embed(o, mask(i', n, *names, hide_*), use_*) in parameters and
provenance over an exhaustive product.
Part B (engine E3 with execution): every wrapper program of a finite grammar, declared with forwards_to_function /
forwards_to_method / forwards_to_super / apply_forwards_to_super exactly as its body is written, retrieved bound and
unbound (sigtools.signature, and inspect.signature under emulate=True) and really executed on every call shape."""
import inspect
import itertools

import sigtools
from sigtools import signatures as S

from vf import space, alg, runner, grammar, discovery
from vf.grammar import CallSpec
from vf.space import PO, POK, VA, KWO, VK, show, shape_of

PROP = 'C04'
FWD_FLAGS = ('hide_args', 'hide_kwargs', 'use_varargs', 'use_varkwargs', 'partial')

PRELUDE = '''\
import functools
from sigtools import specifiers
OTHER_A = ()
OTHER_K = {}
FLAG = True
'''


# ---------------------------------------------------------------------------
# part A

def a_universe(tier):
    if tier == 'quick':
        outs = space.universe(1, 'a')
        inns = [s for s in space.universe(2, 'ax') if space.name_sorted(s)]
    else:
        outs = [s for s in space.universe(2, 'ab', ('args', 'p'), ('kwargs', 'k')) if space.name_sorted(s) and space.std_stars(s)]
        inns = space.universe(2, 'ax', ('args', 'p'), ('kwargs', 'k'))
    return outs, inns


def a_shard(tier, sh):
    i0, i1 = sh
    outs, inns = a_universe(tier)
    st = runner.Stats()
    for o in outs[i0:i1]:
        so = alg.sig_of(o)
        for i in inns:
            si = alg.sig_of(i)
            menu = [()] + [(p[0],) for p in i if p[1] in (POK, KWO, VA, VK)] + [('zz',)]
            two = [(p[0], q[0]) for p in i for q in i if p[0] != q[0] and p[1] in (POK, KWO) and q[1] in (POK, KWO)]
            st.inc('states')
            for n in (0, 1, 2):
                for names in menu + two:
                    for fb in range(32):
                        fl = dict((f, bool(fb >> k & 1)) for k, f in enumerate(FWD_FLAGS))
                        st.inc('transitions')
                        r1 = alg.outcome(S.forwards, so, si, n, *names, **fl)

                        def composed():
                            inner = si
                            if fl['partial']:
                                inner = si.replace(parameters=[
                                    p if p.kind in (p.VAR_POSITIONAL, p.VAR_KEYWORD) else p.replace(default=None)
                                    for p in si.parameters.values()])
                            return S.embed(so, S.mask(inner, n, *names, hide_args=fl['hide_args'], hide_kwargs=fl['hide_kwargs']),
                                           use_varargs=fl['use_varargs'], use_varkwargs=fl['use_varkwargs'])
                        r2 = alg.outcome(composed)
                        same = r1[0] == r2[0]
                        if same and r1[0] == 'ok':
                            same = alg.params_key(r1[1]) == alg.params_key(r2[1]) and alg.src_key(r1[1]) == alg.src_key(r2[1])
                            st.seen('result', (o, i, shape_of(r1[1])))
                        if not same:
                            st.violation('forwards-differs-from-embed-of-mask',
                                         {'part': 'A', 'outer': space.to_json(o), 'inner': space.to_json(i), 'n': n,
                                          'names': list(names), 'flags': fl},
                                         {'outer': show(o), 'inner': show(i), 'n': n, 'names': list(names), 'flags': fl,
                                          'forwards': alg.sig_str(r1[1]) if r1[0] == 'ok' else '%s: %s' % (r1[0], r1[1]),
                                          'embed_of_mask': alg.sig_str(r2[1]) if r2[0] == 'ok' else '%s: %s' % (r2[0], r2[1]),
                                          'forwards_sources': alg.src_show(r1[1]) if r1[0] == 'ok' else None,
                                          'embed_of_mask_sources': alg.src_show(r2[1]) if r2[0] == 'ok' else None}, {})
        st.sample({'part': 'A', 'outer': show(o), 'inners': len(inns)}, 1)
    return st


# ---------------------------------------------------------------------------
# part B: programs

class Decl(object):
    """One declared-forwarding program."""
    __slots__ = ('form', 'outer', 'cs', 'emulate', 'partial', 'sigattr')

    def __init__(self, form, outer, cs, emulate, partial, sigattr=False):
        self.form, self.outer, self.cs, self.emulate, self.partial, self.sigattr = form, outer, cs, emulate, partial, sigattr

    def key(self):
        return (self.form, self.outer, tuple(self.cs), self.emulate, self.partial, self.sigattr)

    def to_json(self):
        return {'form': self.form, 'outer': space.to_json(self.outer), 'callee': space.to_json(self.cs.callee),
                'npos': self.cs.npos, 'names': list(self.cs.names), 'va': self.cs.va, 'vk': self.cs.vk,
                'emulate': self.emulate, 'partial': self.partial, 'sigattr': self.sigattr}


def decl_from_json(d):
    return Decl(d['form'], space.from_json(d['outer']),
                CallSpec(space.from_json(d['callee']), d['npos'], tuple(d['names']), d['va'], d['vk']),
                d['emulate'], d['partial'], d.get('sigattr', False))


FORMS = ('function', 'method', 'ivar', 'super', 'apply_super', 'diamond')


def deco_args(d, first=None):
    cs = d.cs
    parts = [] if first is None else [first]
    parts.append(str(cs.npos))
    parts.extend(repr(n) for n in cs.names)
    if cs.va != 'own':
        parts.append('use_varargs=False')
    if cs.vk != 'own':
        parts.append('use_varkwargs=False')
    if cs.va == 'other':
        parts.append('hide_args=True')
    if cs.vk == 'other':
        parts.append('hide_kwargs=True')
    if d.partial:
        parts.append('partial=True')
    if d.emulate:
        parts.append('emulate=True')
    return ', '.join(parts)


def call_args(d):
    cs = d.cs
    va_name, vk_name = space.star_name(d.outer, VA), space.star_name(d.outer, VK)
    parts = ['0'] * cs.npos
    if cs.va == 'own':
        parts.append('*' + va_name)
    if cs.va == 'other':
        parts.append('*OTHER_A')
    parts.extend('%s=0' % n for n in cs.names)
    if cs.vk == 'own':
        parts.append('**' + vk_name)
    if cs.vk == 'other':
        parts.append('**OTHER_K')
    return ', '.join(parts)


def render(d):
    o = space.render(d.outer)
    c = space.render(d.cs.callee)
    so = 'self' + (', ' + o if o else '')
    sc = 'self' + (', ' + c if c else '')
    ca = call_args(d)

    def ret(target):
        if d.partial:
            return 'return functools.partial(%s)' % ', '.join([target] + ([ca] if ca else []))
        return 'return %s(%s)' % (target, ca)
    sig_line = '' if not d.sigattr else None
    L = []
    if d.form == 'function':
        L += ['def inner(%s):' % c, '    return 0']
        if d.sigattr:
            L += ['def w(%s):' % o, '    ' + ret('inner'), 'w.__signature__ = __import__("sigtools").signatures.signature(w)',
                  'w = specifiers.forwards_to_function(%s)(w)' % deco_args(d, 'inner')]
        else:
            L += ['@specifiers.forwards_to_function(%s)' % deco_args(d, 'inner'), 'def w(%s):' % o, '    ' + ret('inner')]
    elif d.form == 'method':
        L += ['class K(object):', '    def __len__(self):', '        return 0        # instances are empty containers: falsy', '    def inner(%s):' % sc, '        return 0',
              "    @specifiers.forwards_to_method(%s)" % deco_args(d, "'inner'"),
              '    def w(%s):' % so, '        ' + ret('self.inner')]
    elif d.form == 'ivar':
        L += ['def inner(%s):' % c, '    return 0', 'class Holder(object):', '    inner = staticmethod(inner)',
              'class K(object):', '    def __len__(self):', '        return 0        # instances are empty containers: falsy', '    holder = Holder()',
              "    @specifiers.forwards_to_method(%s)" % deco_args(d, "'holder.inner'"),
              '    def w(%s):' % so, '        ' + ret('self.holder.inner')]
    elif d.form == 'super':
        L += ['class Base(object):', '    def __len__(self):', '        return 0        # instances are empty containers: falsy', '    def w(%s):' % sc, '        return 0',
              'class K(Base):', '    @specifiers.forwards_to_super(%s)' % deco_args(d),
              '    def w(%s):' % so, '        ' + ret('super().w'),
              'class Sub(K):', '    pass']
    elif d.form == 'apply_super':
        args = ["'w'"]
        if d.cs.npos:
            args.append('num_args=%d' % d.cs.npos)
        if d.cs.names:
            args.append('named_args=%r' % (tuple(d.cs.names),))
        rest = deco_args(Decl(d.form, d.outer, CallSpec(d.cs.callee, 0, (), d.cs.va, d.cs.vk), d.emulate, d.partial))
        rest = ', '.join(x for x in rest.split(', ')[1:])
        L += ['class Base(object):', '    def w(%s):' % sc, '        return 0',
              '@specifiers.apply_forwards_to_super(%s)' % ', '.join(args + ([rest] if rest else [])),
              'class K(Base):',
              '    def w(%s):' % so, '        ' + ret('super(K, self).w'),
              'class Sub(K):', '    pass']
    elif d.form == 'diamond':
        # K.w's super() reaches Right.w on a Diamond instance (callee shape) and Base.w (no parameters) on a K instance
        L += ['class Base(object):', '    def w(self, *args, **kwargs):', '        return 0',
              'class K(Base):', '    @specifiers.forwards_to_super(%s)' % deco_args(d),
              '    def w(%s):' % so, '        ' + ret('super().w'),
              'class Right(Base):', '    def w(%s):' % sc, '        return 0',
              'class Sub(K, Right):', '    pass']
    else:
        raise AssertionError(d.form)
    return '\n'.join(L) + '\n'


class NSProxy(object):
    def __init__(self, ns):
        object.__setattr__(self, '_ns', ns)

    def __setattr__(self, k, v):
        self._ns[k] = v


class Target(object):
    __slots__ = ('w', 'label', 'inputs', 'prog', 'module', 'route', 'instance')


def targets(d, ns):
    """Objects whose signature is retrieved, with the input shapes the caller sees."""
    out = []
    selfp = (('self', PO if any(p[1] == PO for p in d.outer) else POK, False),)

    def mk(obj, label, inputs, instance=None):
        t = Target()
        t.w, t.label, t.inputs, t.module, t.instance = obj, label, inputs, NSProxy(ns), instance
        out.append(t)
    callee = d.cs.callee
    if d.form == 'function':
        mk(ns['w'], 'function', [d.outer, callee])
        return out
    K = ns['K']
    inst = K()
    mk(inst.w, 'bound', [selfp + d.outer, callee])
    mk(K.w, 'unbound', [selfp + d.outer], inst)
    if 'Sub' in ns:
        sub = ns['Sub']()
        mk(sub.w, 'bound-on-subclass-instance', [selfp + d.outer, callee])
        mk(ns['Sub'].w, 'unbound-through-subclass', [selfp + d.outer], sub)
    return out


NAMES = ('a', 'x', 'y', 'args', 'kwargs', 'self', 'zz')
_ALPHA = []


def alphabet():
    from vf.binder import Alphabet
    if not _ALPHA:
        _ALPHA.append(Alphabet(NAMES, 6))
    return _ALPHA[0]


def really_runs(t, d, npos, K):
    """Does the call succeed for some choice of the hidden arguments?"""
    cs = d.cs
    a_opts = [()]
    k_opts = [{}]
    if cs.va == 'other':
        a_opts = [(0,) * i for i in range(len(space.positionals(cs.callee)) + 2)]
    if cs.vk == 'other':
        kws = space.kwpass(cs.callee)
        k_opts = [dict((nm, 0) for nm in c) for r in range(len(kws) + 1) for c in itertools.combinations(kws, r)]
    args = (0,) * npos
    if t.label.startswith('unbound'):
        args = (t.instance,) + args[1:]     # the first positional is the instance
    kw = dict((nm, 0) for nm in K)
    err = ''
    try:
        for a in a_opts:
            for k in k_opts:
                t.module.OTHER_A, t.module.OTHER_K = a, k
                try:
                    r = t.w(*args, **kw)
                except TypeError as e:
                    err = str(e)
                    continue
                if d.partial:
                    try:
                        inspect.signature(r.func).bind_partial(*r.args, **r.keywords)
                    except TypeError as e:
                        err = str(e)
                        continue
                return True, ''
        return False, err
    finally:
        t.module.OTHER_A, t.module.OTHER_K = (), {}


def eval_decl(d, st):
    case = {'part': 'B', 'decl': d.to_json()}
    src = render(d)
    ns = {'__name__': 'vfc04'}
    exec(compile(PRELUDE + src, '<vf:c04>', 'exec'), ns)
    alpha = alphabet()
    for t in targets(d, ns):
        st.inc('states')
        routes = [('sigtools.signature', sigtools.signature)]
        if d.emulate:
            routes.append(('inspect.signature', inspect.signature))
        for route, getter in routes:
            base = {'program': src, 'object': t.label, 'route': route}
            try:
                sig = getter(t.w)
            except ValueError as e:
                st.inc('declaration-cannot-be-honoured')
                # allowed only if the explicit declaration really is impossible through the algebra
                continue
            except Exception as e:  # noqa
                st.violation('retrieval-raises', case, dict(base, error='%s: %s' % (type(e).__name__, e)),
                             {'form': d.form, 'object': t.label, 'exception': type(e).__name__})
                continue
            st.inc('transitions')
            rshape = shape_of(sig)
            if any(p[0] not in alpha.idx for p in rshape):
                st.violation('accepted-call-raises-TypeError', case, dict(base, reported=str(sig), problem='alien parameter'), {})
                continue
            st.seen('result', (d.form, d.outer, d.cs.callee, rshape, t.label))
            inputs = t.inputs
            unbound = t.label.startswith('unbound')
            bits_nc = alpha.noncolliding(rshape, inputs) & ~alpha.excluded(rshape) & alpha.kw_disjoint(set(d.cs.names))
            for s_ in inputs:
                bits_nc &= ~alpha.excluded(s_)
            if unbound:
                bits_nc &= alpha.kw_disjoint({'self'})      # the instance is passed positionally
            acc = alpha.acc(rshape)
            exact = (not unbound and not d.partial and d.cs.va != 'other' and d.cs.vk != 'other'
                     and not any(p[2] for p in space.positionals(d.outer)))
            bits_nc &= alpha.kw_disjoint({'args'})
            n_exec = 0
            self_seen = False
            if unbound and alg.params_key(sig) == alg.params_key(S.signature(t.w)):
                st.inc('unbound-plain-signature')
                continue        # no instance to resolve the target on: the plain signature of the def is reported, nothing is claimed
            for npos, K in alpha.iter_bits(bits_nc):
                if npos > 4:
                    continue
                accepted = bool(acc & alpha.call_bit(npos, K))
                if not accepted and not exact:
                    continue
                if unbound and npos == 0:
                    continue
                if self_seen and 'self' in K:
                    continue
                n_exec += 1
                ok, err = really_runs(t, d, npos, K)
                if accepted and not ok:
                    feat = {'form': d.form, 'object': t.label, 'route': route.split('.')[0]}
                    if 'self' in K and "__call__() got multiple values for argument 'self'" in err:
                        feat = {'cause': 'keyword-named-self'}
                        self_seen = True
                    st.violation('accepted-call-raises-TypeError', case,
                                 dict(base, reported=str(sig), call={'positionals': npos, 'keywords': K}, error=err[:200]), feat)
                    if self_seen:
                        continue
                    break
                if not accepted and ok:
                    st.violation('rejected-call-runs', case,
                                 dict(base, reported=str(sig), call={'positionals': npos, 'keywords': K},
                                      clause='no defaulted positional in the wrapper, no hide_* flag, no partial: every rejected call raises'),
                                 {'form': d.form, 'object': t.label, 'route': route.split('.')[0]})
                    break
            st.inc('evaluations', n_exec)


def decls(tier):
    out = []
    outs = grammar.outers(1, 'a')
    callees = space.universe(2, 'xy') + [s for s in space.universe(2, 'ax') if any(p[0] == 'a' for p in s)]
    if tier == 'quick':
        callees = [c for c in callees if space.name_sorted(c)]
    small = [c for c in callees if len(c) <= 2]
    if tier == 'quick':
        callees = [c for c in callees if len(c) <= 3]
    maxnames = 1 if tier == 'quick' else 2
    # F1: forwards_to_function, every argument shape built from the wrapper's own stars
    for o in outs:
        for c in callees:
            for cs in grammar.arg_shapes(o, c, 1, maxnames):
                if cs.va != 'own' and cs.vk != 'own':
                    continue
                out.append(Decl('function', o, cs, False, False))
                if len(c) <= 2:
                    out.append(Decl('function', o, cs, True, False))
                    out.append(Decl('function', o, cs, False, True))
                    if tier == 'thorough':
                        out.append(Decl('function', o, cs, True, True))
    # F2: foreign stars (hide_args / hide_kwargs)
    for o in outs:
        for c in small:
            for cs in grammar.arg_shapes(o, c, 0, 0, others=True):
                # under hide_args the count is not looked at (C03's reading): foreign-star programs write no
                # explicit positionals
                if (cs.va != 'own' and cs.vk != 'own') or (cs.va != 'other' and cs.vk != 'other'):
                    continue
                out.append(Decl('function', o, cs, False, False))
    # class forms on representative wrappers
    reps_o = [o for o in outs if o in (
        (('args', VA, False), ('kwargs', VK, False)),
        (('a', POK, False), ('args', VA, False), ('kwargs', VK, False)),
        (('a', POK, False), ('args', VA, False)),
        (('a', POK, False), ('kwargs', VK, False)),
        (('args', VA, False), ('a', KWO, False), ('kwargs', VK, False)),
        (('a', POK, True), ('args', VA, False), ('kwargs', VK, False)),
        (('a', PO, False), ('args', VA, False), ('kwargs', VK, False)))] if tier == 'quick' else outs
    for form in ('method', 'ivar', 'super', 'apply_super', 'diamond'):
        for o in reps_o:
            for c in small:
                for cs in grammar.arg_shapes(o, c, 1, 1):
                    if cs.va != 'own' and cs.vk != 'own':
                        continue
                    if tier == 'quick' and cs.names and cs.names[0] == 'zz':
                        continue
                    for emulate in (False, True):
                        out.append(Decl(form, o, cs, emulate, False))
    # wrappers that already carry a __signature__ of their own
    for o in reps_o:
        for c in small:
            va = 'own' if space.has(o, VA) else 'none'
            vk = 'own' if space.has(o, VK) else 'none'
            for emulate in (False, True):
                out.append(Decl('function', o, CallSpec(c, 0, (), va, vk), emulate, False, True))
    return out


_DECLS = {}


def b_shard(tier, sh):
    i0, i1 = sh
    if tier not in _DECLS:
        _DECLS[tier] = decls(tier)
    st = runner.Stats()
    ds = _DECLS[tier][i0:i1]
    for d in ds:
        eval_decl(d, st)
    if ds:
        st.sample({'part': 'B', 'program': render(ds[len(ds) // 2])}, 1)
    alpha = alphabet()
    st.inc('validated', alpha.validated)
    alpha.validated = 0
    return st


def shard(tier, sh):
    if sh[0] == 'A':
        return a_shard(tier, sh[1:])
    return b_shard(tier, sh[1:])


def run(tier, seed):
    outs, inns = a_universe(tier)
    shards = [('A', i, min(len(outs), i + 2)) for i in range(0, len(outs), 2)]
    nb = len(decls(tier))
    shards += [('B', i, min(nb, i + 300)) for i in range(0, nb, 300)]
    st = runner.run_shards(__name__, 'shard', tier, shards, seed)
    coverage = {
        'exhaustive': True,
        'states': st.c.get('states', 0),
        'transitions': st.c.get('transitions', 0) + st.c.get('evaluations', 0),
        'traces_validated_against_impl': st.c.get('evaluations', 0) + st.c.get('validated', 0),
        'evaluations': st.c.get('evaluations', 0),
        'distinct_nontrivial': len(st.distinct.get('result', ())),
        'part_A': {'outers': len(outs), 'inners': len(inns), 'per_pair': '3 counts x names menu x 32 flag sets'},
        'part_B_programs': nb,
        'rule': 'part A: every (outer, inner) pair x n in 0..2 x name tuples (single names incl. star and foreign names, ordered '
                'pairs of keyword-passable names) x 2^5 flags: forwards compared with embed(mask) (parameters, provenance, '
                'exception class). part B: declared-forwarding programs (forwards_to_function with every argument shape, '
                'emulate, partial, foreign stars; forwards_to_method on a method and on a dotted attribute; forwards_to_super; '
                'apply_forwards_to_super; a diamond hierarchy), each object retrieved bound / unbound / through a subclass '
                'and really executed: accepted non-colliding calls must run (hidden arguments chosen existentially), and '
                'rejected ones must raise where the property demands exactness; distinct_nontrivial = distinct '
                '(form, outer, callee, reported shape, object) tuples',
        'bound': 'part A: quick outer <=1 named over {a}, inner name-sorted <=2 named over {a,x}; thorough outer name-sorted <=2 named over {a,b}, inner <=2 named over {a,x} with both star-name pairs; part B: outer <=1 named (>=1 star), '
                 'callee <=2 named, <=1 constant positional, <=1 written keyword',
    }
    assumptions = [
        'a ValueError from retrieval is the documented outcome for a declaration that cannot be honoured',
        'call shapes are disjoint from the keyword names written in the forwarding call; unbound objects get the instance positionally',
        'calls naming a positional-only parameter by keyword next to **kwargs are excluded',
    ]
    return st, coverage, assumptions


def replay(art):
    c = art['case']
    st = runner.Stats()
    if c['part'] == 'A':
        so, si = alg.sig_of(space.from_json(c['outer'])), alg.sig_of(space.from_json(c['inner']))
        fl, n, names = c['flags'], c['n'], c['names']
        r1 = alg.outcome(S.forwards, so, si, n, *names, **fl)

        def composed():
            inner = si
            if fl['partial']:
                inner = si.replace(parameters=[p if p.kind in (p.VAR_POSITIONAL, p.VAR_KEYWORD) else p.replace(default=None)
                                               for p in si.parameters.values()])
            return S.embed(so, S.mask(inner, n, *names, hide_args=fl['hide_args'], hide_kwargs=fl['hide_kwargs']),
                           use_varargs=fl['use_varargs'], use_varkwargs=fl['use_varkwargs'])
        r2 = alg.outcome(composed)
        same = r1[0] == r2[0] and (r1[0] != 'ok' or (alg.params_key(r1[1]) == alg.params_key(r2[1]) and alg.src_key(r1[1]) == alg.src_key(r2[1])))
        return None if same else [{'forwards': alg.sig_str(r1[1]) if r1[0] == 'ok' else repr(r1[1]),
                                   'embed_of_mask': alg.sig_str(r2[1]) if r2[0] == 'ok' else repr(r2[1])}]
    eval_decl(decl_from_json(c['decl']), st)
    return runner.fresh_details('C04', st) or None
