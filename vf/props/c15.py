"""C15 -- the algebra fails only with ValueError and never yields malformed output (E1).

Every case is run twice: with upgraded inputs and with the same inputs downgraded to plain
inspect.Signature objects (same parameters expected, plus a DeprecationWarning)."""
import itertools
import warnings

from sigtools import signatures as S

from vf import space, alg, runner
from vf.space import PO, show, role_consistent

PROP = 'C15'
_SL = {}
BOTH_VA, BOTH_VK = ('args', 'p'), ('kwargs', 'k')
MASK_FLAGS = ('hide_args', 'hide_kwargs', 'hide_varargs', 'hide_varkwargs')
FWD_FLAGS = ('hide_args', 'hide_kwargs', 'use_varargs', 'use_varkwargs', 'partial')


def slices(tier):
    if tier in _SL:
        return _SL[tier]
    first = lambda u: [s for s in u if space.name_sorted(s) and space.std_stars(s)]
    u2 = space.universe(2, 'abc', BOTH_VA, BOTH_VK)
    u1 = space.universe(1, 'abc', BOTH_VA, BOTH_VK)
    u1f = [s for s in u1 if space.std_stars(s) and all(p[0] in ('a', 'args', 'kwargs') for p in s)]
    out = {
        'merge-pairs-S2': ('merge2', first(u2), u2),
        'merge-triples-S1': ('merge3', u1f, space.universe(1, 'abc')),
        'embed-pairs-S2': ('embed2', first(space.universe(2, 'ab')), space.universe(2, 'abx')),
        'mask-S2': ('mask', space.universe(2, 'ab'), None),
        'forwards-S1xS1': ('forwards', u1f, space.universe(1, 'ax')),
        'embed-triples-S1': ('embed3q', u1f, (space.universe(1, 'ab'), u1f)),
        'annotated-S1xS1': ('annotated', u1f + [x for x in space.universe(1, 'abc') if x not in u1f],
                            space.universe(1, 'ab')),
    }
    if tier == 'thorough':
        out['merge-triples-S1-bothstars'] = ('merge3', u1f, u1)
        out['embed-pairs-S2-bothstars'] = ('embed2', first(space.universe(2, 'ab')), space.universe(2, 'abx', BOTH_VA, BOTH_VK))
        out['forwards-S1xS2'] = ('forwards', u1f, space.universe(2, 'ax'))
        u3 = space.universe(3, 'abc')
        out['merge-pairs-S3'] = ('merge2', first(u3), u3)
        out['embed-pairs-S3'] = ('embed2', first(u3), space.universe(3, 'abx'))
        out['embed-triples-S1'] = ('embed3', space.universe(1, 'abc'), space.universe(1, 'abc', BOTH_VA, BOTH_VK))
        out['annotated-S2xS2'] = ('annotated', first(u2), space.universe(2, 'ab'))
        out['mask-S3'] = ('mask', u3, None)
        out['forwards-S2xS2'] = ('forwards', first(space.universe(2, 'ab')), space.universe(2, 'abx'))
    _SL[tier] = out
    return out


def shards(tier):
    out = []
    for name, v in slices(tier).items():
        n = len(v[1])
        per = max(1, n // 48)
        for i in range(0, n, per):
            out.append((name, i, min(n, i + per)))
    return out


_WARNED = []


def _showwarning(message, category, *a, **k):
    if issubclass(category, DeprecationWarning):
        _WARNED.append(category)


def arm_warnings():
    """Record DeprecationWarnings cheaply (process-wide, worker processes only)."""
    warnings.resetwarnings()
    warnings.simplefilter('always')
    warnings.showwarning = _showwarning


def run_op(fn, args, kwargs):
    """-> (status, result-or-exception, deprecation_warned)"""
    del _WARNED[:]
    status, res = alg.outcome(fn, *args, **kwargs)
    return status, res, bool(_WARNED)


_ANN = {}


def annotated_sig(shape, txt):
    key = (shape, txt)
    if key not in _ANN:
        _ANN[key] = S.signature(space.make_func(shape, annotations=dict((p[0], txt) for p in shape), cache=False))
    return _ANN[key]


def eval_case(opname, fn, shapes, args, kwargs, st, need_incompat, ann=None):
    """One algebra application, upgraded and downgraded."""
    sigs = [alg.sig_of(s) for s in shapes] if ann is None else [annotated_sig(s, t) for s, t in zip(shapes, ann)]
    status, res, _ = run_op(fn, sigs + list(args), kwargs)
    st.inc('transitions')
    case = {'op': opname, 'sigs': [space.to_json(s) for s in shapes], 'args': list(args), 'kwargs': kwargs}
    if ann is not None:
        case['annotations'] = list(ann)
    out = []

    def viol(kind, **d):
        detail = {'op': opname, 'sigs': [show(s) for s in shapes], 'args': list(args), 'kwargs': kwargs,
                  'annotations': 'every parameter of operand i annotated %s' % (list(ann),) if ann else 'none',
                  'outcome': alg.sig_str(res) if status == 'ok' else '%s: %s' % (type(res).__name__, res)}
        detail.update(d)
        st.violation(kind, case, detail, {'op': opname})
        out.append(detail)

    if status == 'ok':
        why = alg.well_formed(res)
        if why:
            viol('malformed-result', reason=why)
        else:
            st.seen('result', (opname, space.shape_of(res)))
    elif status == 'other':
        viol('non-valueerror-escapes', exception=type(res).__name__)
    else:
        st.inc('raised:' + status)
        st.seen('outcome', (opname, status))
        if status == 'valueerror' and need_incompat and role_consistent(shapes):
            viol('bare-valueerror-on-role-consistent-inputs', exception=type(res).__name__)
    # ---- the same with plain inspect.Signature inputs --------------------
    plain = [alg.downgrade(s) for s in sigs]
    pstatus, pres, dep = run_op(fn, plain + list(args), kwargs)
    st.inc('transitions')
    if (pstatus == 'ok') != (status == 'ok'):
        viol('plain-inputs-differ', plain_outcome=alg.sig_str(pres) if pstatus == 'ok' else repr(pres))
    elif status == 'ok':
        if alg.params_key(pres) != alg.params_key(res):
            viol('plain-inputs-differ', plain_outcome=alg.sig_str(pres))
        elif alg.well_formed(pres):
            viol('malformed-result', reason='with plain inputs: ' + alg.well_formed(pres))
        elif not dep:
            viol('plain-inputs-no-deprecation-warning')
    elif pstatus == 'other':
        viol('non-valueerror-escapes', exception=type(pres).__name__, inputs='plain')
    # ---- and with only the later inputs plain (the first one upgraded) ---
    if len(sigs) > 1 and status == 'ok' and (opname == 'merge' or all(kwargs.get(f, True) for f in ('use_varargs', 'use_varkwargs', 'partial'))):
        mstatus, mres, mdep = run_op(fn, [sigs[0]] + plain[1:] + list(args), kwargs)
        st.inc('transitions')
        if mstatus != 'ok' or alg.params_key(mres) != alg.params_key(res):
            viol('plain-inputs-differ', inputs='first upgraded, the others plain',
                 plain_outcome=alg.sig_str(mres) if mstatus == 'ok' else repr(mres))
        elif not mdep:
            viol('plain-inputs-no-deprecation-warning', inputs='first upgraded, the others plain')
    return out or None


def names_menu(shape, dup=True):
    """ordered name tuples (<=2, repetition allowed) from all parameter names + a foreign one"""
    menu = [p[0] for p in shape] + ['zz']
    yield ()
    for a in menu:
        yield (a,)
    for a, b in itertools.product(menu, repeat=2):
        if dup or a != b:
            yield (a, b)


def cases_for(kind, a, other, tier):
    """Yield (opname, fn, shapes, args, kwargs, need_incompat) for first operand ``a``."""
    if kind == 'merge2':
        for b in other:
            yield 'merge', S.merge, (a, b), (), {}, True, None
    elif kind == 'merge3':
        for b, c in itertools.product(other, repeat=2):
            yield 'merge', S.merge, (a, b, c), (), {}, True, None
    elif kind == 'embed2':
        for b in other:
            for uva in (True, False):
                for uvk in (True, False):
                    yield 'embed', S.embed, (a, b), (), {'use_varargs': uva, 'use_varkwargs': uvk}, True, None
    elif kind == 'embed3q':
        for b, c in itertools.product(*other):
            for uva in (True, False):
                for uvk in (True, False):
                    yield 'embed', S.embed, (a, b, c), (), {'use_varargs': uva, 'use_varkwargs': uvk}, True, None
    elif kind == 'embed3':
        for b, c in itertools.product(other, repeat=2):
            for uva in (True, False):
                for uvk in (True, False):
                    yield 'embed', S.embed, (a, b, c), (), {'use_varargs': uva, 'use_varkwargs': uvk}, True, None
    elif kind == 'annotated':
        # every parameter annotated; the two operands agree ('int', 'int') or disagree ('int', 'str')
        for b in other:
            for ann in (('int', 'int'), ('int', 'str')):
                yield 'merge', S.merge, (a, b), (), {}, True, ann
                for uva in (True, False):
                    for uvk in (True, False):
                        yield 'embed', S.embed, (a, b), (), {'use_varargs': uva, 'use_varkwargs': uvk}, True, ann
                for n in range(2):
                    for fb in range(0, 32, 4):
                        flags = dict((f, bool(fb >> i & 1)) for i, f in enumerate(FWD_FLAGS))
                        yield 'forwards', S.forwards, (a, b), (n,), flags, False, ann
            yield 'mask', S.mask, (a,), (1,), {}, False, ('int',)
    elif kind == 'mask':
        P = len(space.positionals(a))
        for n in range(len(a) + 3):
            for names in names_menu(a):
                for fb in range(16):
                    flags = dict((f, True) for i, f in enumerate(MASK_FLAGS) if fb >> i & 1)
                    yield 'mask', S.mask, (a,), (n,) + names, flags, False, None
    elif kind == 'forwards':
        for b in other:
            menu = [()] + [(p[0],) for p in b] + [('zz',)]
            for n in range(3):
                for names in menu:
                    for fb in range(32):
                        flags = dict((f, bool(fb >> i & 1)) for i, f in enumerate(FWD_FLAGS))
                        yield 'forwards', S.forwards, (a, b), (n,) + names, flags, False, None


def shard(tier, sh):
    name, i0, i1 = sh
    kind, first, other = slices(tier)[name]
    st = runner.Stats()
    arm_warnings()
    for a in first[i0:i1]:
        for opname, fn, shapes, args, kwargs, need, ann in cases_for(kind, a, other, tier):
            st.inc('states')
            eval_case(opname, fn, shapes, args, kwargs, st, need, ann)
        if len(a) > 1:
            st.sample({'slice': name, 'first_operand': show(a)}, 1)
    return st


def run(tier, seed):
    sl = slices(tier)
    st = runner.run_shards(__name__, 'shard', tier, shards(tier), seed)
    from vf.props import c15b
    st2, extra = c15b.run_part(tier, seed)
    st.merge(st2)
    coverage = {
        'exhaustive': True,
        'states': st.c.get('states', 0),
        'transitions': st.c.get('transitions', 0),
        'traces_validated_against_impl': st.c.get('transitions', 0),
        'evaluations': st.c.get('transitions', 0),
        'distinct_nontrivial': len(st.distinct.get('result', ())) + len(st.distinct.get('outcome', ())),
        'rule': 'every input tuple of the slice (role-inconsistent ones included) x every operation argument of the '
                'menu (n up to len+2, names incl. foreign/duplicate/positional-only/star names, all flag combinations), '
                'each also with plain inspect.Signature inputs; no model involved: every application runs the real '
                'operation and re-validates its output through inspect.Signature (that is what '
                'traces_validated_against_impl counts); distinct_nontrivial = distinct (operation, result shape) + '
                'distinct (operation, exception class)',
        'slices': dict((k, {'kind': v[0], 'first_operands': len(v[1]), 'other_operands': ([len(x) for x in v[2]] if isinstance(v[2], tuple) else len(v[2])) if v[2] else None})
                       for k, v in sl.items()),
        'bound': 'k<=2 per operand (merge/embed pairs, mask), k<=1 merge triples, forwards k<=1 x k<=1 (quick); k<=3, both star-name pairs, forwards k<=2 (thorough)',
    }
    coverage.update(extra)
    assumptions = [
        'role-consistency as defined in DESIGN.md section 2 (kind + positional index of every shared name)',
        'part B: retrieval turning algebra failures into its fallback is checked on the forwarding programs of slice S1',
    ]
    return st, coverage, assumptions


def replay(art):
    case = art['case']
    if case.get('op') == 'program':
        from vf.props import c15b
        return c15b.replay(art)
    fn = getattr(S, case['op'])
    shapes = tuple(space.from_json(x) for x in case['sigs'])
    st = runner.Stats()
    arm_warnings()
    return eval_case(case['op'], fn, shapes, tuple(case['args']), case['kwargs'], st,
                     case['op'] in ('merge', 'embed'), tuple(case['annotations']) if case.get('annotations') else None)
