"""Signature shapes, the finite universes they are enumerated from, and real
functions / signatures built from them (DESIGN.md section 2).

A *shape* is a tuple of ``(name, kind, optional)`` triples, kinds being the
small integers below.  Shapes are plain data: hashable, picklable, JSON-able.
"""
import inspect
import itertools

PO, POK, VA, KWO, VK = 0, 1, 2, 3, 4
KIND_OF = {
    inspect.Parameter.POSITIONAL_ONLY: PO,
    inspect.Parameter.POSITIONAL_OR_KEYWORD: POK,
    inspect.Parameter.VAR_POSITIONAL: VA,
    inspect.Parameter.KEYWORD_ONLY: KWO,
    inspect.Parameter.VAR_KEYWORD: VK,
}
KIND_OBJ = {v: k for k, v in KIND_OF.items()}
KIND_STR = {PO: 'PO', POK: 'POK', VA: 'VA', KWO: 'KWO', VK: 'VK'}

STD_STARS = ('args', 'kwargs')
ALT_STARS = ('p', 'k')


def universe(k, pool, va_names=('args',), vk_names=('kwargs',), min_named=0):
    """Every valid shape with <= k named parameters whose names are distinct
    members of ``pool`` (every order), every PO|POK|KWO split, every valid
    default pattern, with/without a star parameter of each sort named from
    ``va_names`` / ``vk_names``.  Deterministic order, simplest first."""
    out = []
    vas = (None,) + tuple(va_names)
    vks = (None,) + tuple(vk_names)
    for m in range(min_named, k + 1):
        for names in itertools.permutations(pool, m):
            for i in range(m + 1):              # first i positional-only
                for j in range(i, m + 1):       # up to j positional-or-keyword
                    npos = j
                    nkwo = m - j
                    for d in range(npos + 1):   # d optional positionals (a suffix)
                        for kwmask in range(1 << nkwo):
                            named = []
                            for idx, nm in enumerate(names):
                                if idx < i:
                                    named.append((nm, PO, idx >= npos - d))
                                elif idx < j:
                                    named.append((nm, POK, idx >= npos - d))
                                else:
                                    named.append((nm, KWO, bool(kwmask >> (idx - j) & 1)))
                            for va in vas:
                                for vk in vks:
                                    sh = [p for p in named if p[1] in (PO, POK)]
                                    if va:
                                        sh.append((va, VA, False))
                                    sh.extend(p for p in named if p[1] == KWO)
                                    if vk:
                                        sh.append((vk, VK, False))
                                    out.append(tuple(sh))
    return out


def name_sorted(shape):
    """True when the named parameters appear in sorted order (symmetry
    representative under renaming) -- used to restrict the *first* operand."""
    named = [p[0] for p in shape if p[1] in (PO, POK, KWO)]
    return named == sorted(named)


def std_stars(shape):
    for n, k, _ in shape:
        if k == VA and n != 'args':
            return False
        if k == VK and n != 'kwargs':
            return False
    return True


def render(shape, defaults=None, annotations=None):
    """Python parameter-list source for a shape.  ``defaults`` maps a name to
    source text of its default (default ``0`` for optional parameters),
    ``annotations`` maps a name to source text of its annotation."""
    defaults = defaults or {}
    annotations = annotations or {}
    parts = []
    has_po = any(k == PO for _, k, _ in shape)
    has_va = any(k == VA for _, k, _ in shape)
    seen_po_end = not has_po
    star_done = has_va
    for name, kind, opt in shape:
        if kind != PO and not seen_po_end:
            parts.append('/')
            seen_po_end = True
        if kind == KWO and not star_done:
            parts.append('*')
            star_done = True
        txt = name
        if kind == VA:
            txt = '*' + name
            star_done = True
        elif kind == VK:
            txt = '**' + name
        if name in annotations:
            txt += ': ' + annotations[name]
        if opt:
            txt += ('=' if name not in annotations else ' = ') + defaults.get(name, '0')
        parts.append(txt)
    if not seen_po_end:
        parts.append('/')
    return ', '.join(parts)


def show(shape):
    return '(' + render(shape) + ')'


_FUNC_CACHE = {}


def make_func(shape, body='pass', name=None, defaults=None, annotations=None,
              ret=None, glob=None, future=False, cache=True):
    """A real function with this parameter list (compiled, not sourced)."""
    key = None
    if cache and defaults is None and annotations is None and ret is None and glob is None and not future and name is None:
        key = (shape, body)
        f = _FUNC_CACHE.get(key)
        if f is not None:
            return f
    fname = name or 'f'
    src = 'def {0}({1}){2}:\n    {3}\n'.format(
        fname, render(shape, defaults, annotations),
        ' -> ' + ret if ret else '', body)
    if future:
        src = 'from __future__ import annotations\n' + src
    ns = {'__name__': 'vfgen'} if glob is None else glob
    exec(compile(src, '<vf:%s>' % show(shape), 'exec'), ns)
    f = ns[fname]
    if key is not None:
        _FUNC_CACHE[key] = f
    return f


def shape_of(sig):
    """Abstract a signature (any inspect.Signature) to a shape."""
    empty = inspect.Parameter.empty
    return tuple((p.name, KIND_OF[p.kind], p.default is not empty)
                 for p in sig.parameters.values())


def valid_shape(shape):
    """Would CPython / inspect accept this parameter list?"""
    names = [p[0] for p in shape]
    if len(set(names)) != len(names):
        return False
    last = -1
    seen_opt = False
    for _, kind, opt in shape:
        if kind < last:
            return False
        if kind == last and kind in (VA, VK):
            return False
        last = kind
        if kind in (PO, POK):
            if opt:
                seen_opt = True
            elif seen_opt:
                return False
    return True


def names_of(shape):
    return [p[0] for p in shape]


def kwpass(shape):
    return [p[0] for p in shape if p[1] in (POK, KWO)]


def positionals(shape):
    return [p for p in shape if p[1] in (PO, POK)]


def has(shape, kind):
    return any(p[1] == kind for p in shape)


def star_name(shape, kind):
    for p in shape:
        if p[1] == kind:
            return p[0]
    return None


def roles(shape):
    """name -> (kind, positional index or None)."""
    out = {}
    pi = 0
    for name, kind, _ in shape:
        if kind in (PO, POK):
            out[name] = (kind, pi)
            pi += 1
        else:
            out[name] = (kind, None)
    return out


def role_consistent(shapes):
    seen = {}
    for sh in shapes:
        for name, role in roles(sh).items():
            if seen.setdefault(name, role) != role:
                return False
    return True


def position_consistent(shapes):
    """Weaker than role_consistent: a shared name is positional at the same index everywhere (positional-only or
    positional-or-keyword alike), or keyword-only everywhere, or the same star everywhere."""
    seen = {}
    for sh in shapes:
        for name, (kind, idx) in roles(sh).items():
            role = ('positional', idx) if kind in (PO, POK) else (kind, None)
            if seen.setdefault(name, role) != role:
                return False
    return True


def name_aligned(shapes):
    pos = [[p[0] for p in positionals(sh)] for sh in shapes]
    for a, b in itertools.combinations(pos, 2):
        for x, y in zip(a, b):
            if x != y:
                return False
    return True


def to_json(shape):
    return [[n, KIND_STR[k], bool(o)] for n, k, o in shape]


_KIND_FROM_STR = {v: k for k, v in KIND_STR.items()}


def from_json(obj):
    return tuple((n, _KIND_FROM_STR[k], bool(o)) for n, k, o in obj)
