"""Histories over signature objects that stay in use (engine E6 in miniature): every ordered pair of operations from a
menu is applied to one world of signature objects -- the first for its side effects only -- and the outcome of the
second is compared with the outcome it has in a world nobody has touched.  Catches state kept on, or shared between,
the objects the algebra is handed (caches on the signature, containers edited in place, defaults shared by calls)."""
from vf import alg


def canon(outcome):
    status, res = outcome
    if status != 'ok':
        return (status, type(res).__name__)
    try:
        src = res.sources
        prov = (tuple(sorted((k, len(v)) for k, v in src.items() if k != '+depths')),
                tuple(sorted(src.get('+depths', {}).values())), '+depths' in src)
        return ('ok', alg.params_key(res), alg.sig_str(res), prov)
    except Exception:  # noqa: not a signature (a tuple from sort_params, a string)
        return ('ok', repr(res))


def _in_child(fn):
    """Run fn() in a forked child and return its (picklable) result: what the child does to process-wide state
    (module globals, default arguments shared between calls) does not reach the parent or the next child."""
    import os
    import pickle
    r, w = os.pipe()
    pid = os.fork()
    if pid == 0:
        code = 0
        try:
            os.close(r)
            with os.fdopen(w, 'wb') as f:
                pickle.dump(fn(), f)
        except BaseException:  # noqa
            code = 1
        finally:
            os._exit(code)
    os.close(w)
    with os.fdopen(r, 'rb') as f:
        data = f.read()
    _, status = os.waitpid(pid, 0)
    if status != 0 or not data:
        raise RuntimeError('history child failed (status %r)' % (status,))
    return pickle.loads(data)


def pairs(make_world, ops, st, prop_case, violation_kind='result-depends-on-earlier-operation'):
    """make_world() -> dict of fresh objects; ops: list of (label, callable(world)).  Every reference outcome is computed
    in a process that has run nothing else; every first operation gets a process of its own."""
    refs = {}
    for label, fn in ops:
        refs[label] = _in_child(lambda fn=fn: canon(alg.outcome(fn, make_world())))

    def after(f1):
        out = []
        for l2, f2 in ops:
            w = make_world()
            alg.outcome(f1, w)
            out.append(canon(alg.outcome(f2, w)))
        return out
    for l1, f1 in ops:
        results = _in_child(lambda f1=f1: after(f1))
        for (l2, f2), got in zip(ops, results):
            st.inc('states')
            st.inc('transitions', 2)
            if got != refs[l2]:
                st.violation(violation_kind, dict(prop_case, first=l1, second=l2),
                             {'first_operation': l1, 'then': l2, 'result': repr(got)[:300],
                              'on_untouched_objects': repr(refs[l2])[:300]}, {'op': 'history'})
            st.seen('result', ('history', l2, refs[l2]))
