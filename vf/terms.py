"""Engine E2 -- explicit-state breadth-first search over the real algebra.

A *state* is an UpgradedSignature in canonical form (parameters with all
metadata, return annotation, provenance rendered by callable label, depths).
It travels between processes as the *term* that reaches it (seed shape +
operations) and is rebuilt on real objects where it is needed.  Transitions are
the public operations with every argument of a finite menu.  The search is
level-synchronous; each level's frontier is sharded over the workers.  A
property module plugs in ``state_check(sig, term, st)`` and
``trans_check(tr, st)``; both are evaluated on *every* state / transition.
"""
import importlib
import inspect

from sigtools import signatures as S

from vf import space, alg, runner
from vf.space import show

BOTH_VA, BOTH_VK = ('args', 'p'), ('kwargs', 'k')
MASK_FLAGSETS = ((), ('hide_args',), ('hide_kwargs',), ('hide_varargs',), ('hide_varkwargs',))
USES = ((True, True), (True, False), (False, True))

_UNIV = {}


def univ(key):
    if key not in _UNIV:
        k, pool, both = key
        _UNIV[key] = space.universe(k, pool, BOTH_VA, BOTH_VK) if both else space.universe(k, pool)
    return _UNIV[key]


class Config(object):
    """Bounds of one search."""

    def __init__(self, seeds, partners_by_depth, maxdepth, name):
        self.seeds = seeds
        self.partners_by_depth = partners_by_depth
        self.maxdepth = maxdepth
        self.name = name


TINY = (
    (), (('a', 1, False),), (('a', 1, True),), (('a', 3, False),), (('args', 2, False),), (('kwargs', 4, False),),
    (('args', 2, False), ('kwargs', 4, False)), (('a', 1, False), ('args', 2, False), ('kwargs', 4, False)),
)


def config(tier):
    """quick: seeds = the 28 signatures with <=1 parameter named a and standard star names (representatives under
    renaming: the operations only compare names for equality), level-1 partners = all 117 signatures over {a,b} with
    both star-name pairs, level-2 partners = 8 hand-picked shapes.  thorough: all 171 seeds over {a,b,c}, level-2
    partners = the 28 representatives."""
    full = univ((1, 'ab', True))
    small = [s for s in univ((1, 'ab', False)) if all(p[0] in ('a', 'args', 'kwargs') for p in s)]
    if tier == 'quick':
        return Config(small, [full, list(TINY)], 2,
                      'quick: depth 2; 28 seeds, 117 level-1 partners, 8 level-2 partners')
    return Config(univ((1, 'abc', True)), [full, small], 2,
                  'thorough: depth 2; 171 seeds, 117 level-1 partners, 28 level-2 partners')


# ---------------------------------------------------------------------------
# callables and labels

def fn_label(f):
    sh = getattr(f, '_vf_shape', None)
    if sh is not None:
        return 'f' + show(sh)
    return alg.label(f)


def seed_sig(shape):
    sig = alg.sig_of(shape)
    f = space.make_func(shape)
    if not hasattr(f, '_vf_shape'):
        f._vf_shape = shape
    return sig


def canon(sig):
    """Canonical form: every field any operation reads, minus object identity."""
    src = sig.sources
    srck = tuple(sorted((k, tuple(fn_label(f) for f in v)) for k, v in src.items() if k != '+depths'))
    depk = tuple(sorted((fn_label(f), d) for f, d in src.get('+depths', {}).items()))
    ua = tuple(repr(p.upgraded_annotation) for p in sig.parameters.values())
    return (alg.params_key(sig), alg._val_key(sig.return_annotation), srck, depk, ua)


# ---------------------------------------------------------------------------
# terms

_MEMO = {}


def build(term):
    """Rebuild the real signature a term denotes (replaying operations)."""
    try:
        return _MEMO[term]
    except KeyError:
        pass
    op = term[0]
    if op == 'seed':
        sig = seed_sig(term[1])
    else:
        sig = apply_op(term, [build(t) for t in term_inputs(term)])
    if len(_MEMO) > 200000:
        _MEMO.clear()
    _MEMO[term] = sig
    return sig


def term_inputs(term):
    op = term[0]
    if op in ('merge', 'embed', 'forwards'):
        return term[1], term[2]
    return (term[1],)


def apply_op(term, inputs):
    op = term[0]
    if op == 'merge':
        return S.merge(*inputs)
    if op == 'embed':
        return S.embed(*inputs, use_varargs=term[3], use_varkwargs=term[4])
    if op == 'forwards':
        return S.forwards(inputs[0], inputs[1], term[3], partial=term[4])
    if op == 'mask':
        return S.mask(inputs[0], term[2], *term[3], **dict((f, True) for f in term[4]))
    if op == 'replace':
        return inputs[0].replace()
    if op == 'evaluated':
        return inputs[0].evaluated()
    if op == 'roundtrip':
        return S.apply_params(inputs[0], *S.sort_params(inputs[0]))
    raise AssertionError(op)


def show_term(term):
    op = term[0]
    if op == 'seed':
        return show(term[1])
    if op in ('merge', 'embed', 'forwards'):
        extra = ''
        if op == 'embed' and not (term[3] and term[4]):
            extra = ', use_varargs=%s, use_varkwargs=%s' % (term[3], term[4])
        if op == 'forwards':
            extra = ', %d%s' % (term[3], ', partial=True' if term[4] else '')
        return '%s(%s, %s%s)' % (op, show_term(term[1]), show_term(term[2]), extra)
    if op == 'mask':
        return 'mask(%s, %d%s%s)' % (show_term(term[1]), term[2], ''.join(', %r' % n for n in term[3]),
                                    ''.join(', %s=True' % f for f in term[4]))
    return '%s(%s)' % (op, show_term(term[1]))


def root_seed(term):
    while term[0] != 'seed':
        term = term[1]
    return term[1]


def successors(term, sig, partners):
    """Every transition of the menu from this state: yields successor terms."""
    # a state is also combined with the very seed it was derived from (the same parameter objects on both sides)
    own = root_seed(term)
    if term[0] != 'seed' and own not in partners:
        partners = list(partners) + [own]
    for p in partners:
        pt = ('seed', p)
        yield ('merge', term, pt)
        yield ('merge', pt, term)
        for uva, uvk in USES:
            yield ('embed', term, pt, uva, uvk)
            yield ('embed', pt, term, uva, uvk)
        for n in (0, 1):
            for partial in (False, True):
                yield ('forwards', term, pt, n, partial)
                yield ('forwards', pt, term, n, partial)
    names = [()] + [(p.name,) for p in sig.parameters.values()] + [('zz',)]
    npos = sum(1 for p in sig.parameters.values() if p.kind in (p.POSITIONAL_ONLY, p.POSITIONAL_OR_KEYWORD))
    for n in range(min(npos, 2) + 2):
        for nm in names:
            for fl in MASK_FLAGSETS:
                yield ('mask', term, n, nm, fl)
    yield ('replace', term)
    yield ('evaluated', term)
    yield ('roundtrip', term)


class Transition(object):
    __slots__ = ('term', 'op', 'inputs', 'status', 'result', 'pre')


def snapshot(sig):
    """Deep snapshot of everything C16 says must not change."""
    params = list(sig.parameters.values())
    src = sig.sources
    return (
        tuple(id(p) for p in params),
        tuple((p.name, int(p.kind), alg._val_key(p.default), alg._val_key(p.annotation),
               repr(p.upgraded_annotation), id(p.upgraded_annotation)) for p in params),
        alg._val_key(sig.return_annotation), id(sig.upgraded_return_annotation),
        id(src),
        tuple(sorted((k, id(v), tuple(id(f) for f in v)) for k, v in src.items() if k != '+depths')),
        id(src.get('+depths')),
        tuple(sorted((id(f), d) for f, d in src.get('+depths', {}).items())),
    )


def expand_shard(args, shard):
    """Worker: expand frontier[i0:i1] of one level."""
    modname, tier, depth, final, frontier = _LEVEL
    i0, i1 = shard
    mod = importlib.import_module(modname)
    cfg = config(tier)
    partners = cfg.partners_by_depth[depth]
    st = runner.Stats()
    new = {}
    seen_local = _SEEN_LOCAL
    want_snap = getattr(mod, 'NEEDS_SNAPSHOTS', False)
    state_check = getattr(mod, 'state_check', None)
    trans_check = getattr(mod, 'trans_check', None)
    for term in frontier[i0:i1]:
        sig = build(term)
        if depth == 0 and state_check is not None:
            k0 = canon(sig)
            if k0 not in seen_local:
                seen_local.add(k0)
                state_check(sig, term, st)
                st.inc('state_checks')
        for succ in successors(term, sig, partners):
            inputs = [build(t) for t in term_inputs(succ)]
            tr = Transition()
            tr.term = succ
            tr.op = succ[0]
            tr.inputs = inputs
            tr.pre = [snapshot(s) for s in inputs] if want_snap else None
            tr.status, tr.result = alg.outcome(apply_op, succ, inputs)
            st.inc('transitions')
            st.inc('op:' + tr.op)
            if tr.status != 'ok':
                st.inc('raised:' + tr.status)
            if trans_check is not None:
                trans_check(tr, st)
            if tr.status != 'ok':
                continue
            if alg.well_formed(tr.result):
                st.inc('malformed-result(C15)')
                continue
            key = canon(tr.result)
            st.seen('state', hash(key))
            if key not in seen_local:
                seen_local.add(key)
                if state_check is not None:
                    state_check(tr.result, succ, st)
                    st.inc('state_checks')
                if not final and key not in new:
                    new[key] = succ
                    _MEMO[succ] = tr.result
        st.sample({'state': show_term(term), 'depth': depth}, 1)
    st.notes.append(new)
    return st


_LEVEL = None
_SEEN_LOCAL = set()


def _shard_entry(tier, shard):
    return expand_shard(None, shard)


def explore(modname, tier, seed=0):
    """Run the BFS with the property module's checks.  Returns merged Stats
    with counters states/transitions/levels."""
    global _LEVEL
    cfg = config(tier)
    total = runner.Stats()
    frontier = [('seed', s) for s in cfg.seeds]
    seen = set()
    for t in frontier:
        seen.add(canon(build(t)))
    levels = []
    for depth in range(cfg.maxdepth):
        final = depth == cfg.maxdepth - 1
        _LEVEL = (modname, tier, depth, final, frontier)
        _SEEN_LOCAL.clear()
        n = len(frontier)
        per = max(1, min(64, n // (runner.workers() * 6) or 1))
        shards = [(i, min(n, i + per)) for i in range(0, n, per)]
        st = runner.run_shards(__name__, '_shard_entry', tier, shards, seed)
        nxt = {}
        for part in st.notes:
            for k, term in part.items():
                if k not in seen and k not in nxt:
                    nxt[k] = term
        st.notes = []
        levels.append({'depth': depth, 'frontier': n, 'transitions': st.c.get('transitions', 0),
                       'partners': len(cfg.partners_by_depth[depth]), 'new_states': len(nxt)})
        total.merge(st)
        seen.update(nxt)
        # deterministic frontier order
        frontier = [nxt[k] for k in sorted(nxt, key=repr)]
    total.c['levels'] = len(levels)
    total.c['states'] = len(seen) if cfg.maxdepth else 0
    total.c['states_final_level'] = len(total.distinct.get('state', ()))
    return total, levels, cfg
