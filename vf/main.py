"""./vcheck entry point."""
import argparse
import importlib
import json
import os
import sys
import time
import traceback

from vf import runner


def _assert_repo():
    import sigtools
    root = os.path.realpath(runner.REPO)
    where = os.path.realpath(sigtools.__file__)
    if not where.startswith(root + os.sep):
        raise runner.HarnessError('sigtools imported from %s, not from %s' % (where, root))


def main(argv=None):
    ap = argparse.ArgumentParser(prog='vcheck')
    ap.add_argument('prop', nargs='?')
    ap.add_argument('--tier', default=os.environ.get('VERIF_TIER') or 'quick', choices=['quick', 'thorough'])
    ap.add_argument('--replay')
    ap.add_argument('--deep', action='store_true')
    args = ap.parse_args(argv)
    try:
        seed = int(os.environ.get('VERIF_SEED', '0') or 0)
    except ValueError:
        seed = 0
    try:
        _assert_repo()
        if args.replay:
            with open(args.replay) as f:
                art = json.load(f)
            mod = importlib.import_module('vf.props.' + art['property'].lower())
            res = mod.replay(art)
            if res:
                print('VIOLATION property=%s replay=%s' % (art['property'], args.replay))
                print('  reproduced: %s' % json.dumps(res, default=repr)[:1000])
                return 1
            print('replay: case no longer violates %s' % art['property'])
            return 0
        if not args.prop:
            ap.error('property id required')
        prop = args.prop.upper()
        mod = importlib.import_module('vf.props.' + prop.lower())
        t0 = time.time()
        if args.deep:
            os.environ['VF_DEEP'] = '1'
        stats, coverage, assumptions = mod.run(args.tier, seed)
        return runner.finish(prop, args.tier, seed, t0, stats, coverage, assumptions)
    except runner.HarnessError as e:
        print('HARNESS-ERROR: %s' % e)
        return 2
    except Exception:
        print('HARNESS-ERROR: unexpected exception\n' + traceback.format_exc())
        return 2


if __name__ == '__main__':
    sys.exit(main())
