"""The binder model B (DESIGN.md section 1/2): does CPython accept a call with
n positionals and keyword-name set K for a given parameter list?

Acceptance sets over a finite call alphabet are Python ints used as bitsets
(bit ``n * 2**m + Kmask``).  Every acceptance set that any check consults is
replayed against a real compiled function that is really called -- the
conformance pass that keeps the model bound to CPython -- and a disagreement
is a harness error (exit 2), never a property verdict.
"""
from vf.space import PO, POK, VA, KWO, VK, make_func, show


class ModelMismatch(Exception):
    """B and CPython disagree: the model is wrong (harness error)."""


def accepts(shape, n, K):
    """Reference (slow, obvious) statement of B.  K: set of names.
    A keyword naming a positional-only parameter is absorbed by **kwargs when
    there is one (CPython >= 3.8 real-call semantics); every property excludes
    those calls, see Alphabet.excluded()."""
    pos = [p for p in shape if p[1] in (PO, POK)]
    has_va = any(p[1] == VA for p in shape)
    has_vk = any(p[1] == VK for p in shape)
    if n > len(pos) and not has_va:
        return False
    bound = set(p[0] for p in pos[:n])
    byname = dict((p[0], p) for p in shape if p[1] in (POK, KWO))
    for k in K:
        if k in byname:
            if k in bound:
                return False            # multiple values
            bound.add(k)
        elif not has_vk:
            return False                # unexpected keyword (incl. PO names, star names)
    for name, kind, opt in shape:
        if kind in (PO, POK, KWO) and not opt and name not in bound:
            return False
    return True


class Alphabet(object):
    """Call shapes (n, K) with n in 0..nmax and K a subset of ``names``."""

    def __init__(self, names, nmax):
        self.names = tuple(names)
        self.m = len(self.names)
        assert self.m <= 10
        self.nmax = nmax
        self.idx = dict((nm, i) for i, nm in enumerate(self.names))
        self.kcount = 1 << self.m
        self.size = (nmax + 1) * self.kcount
        self.full = (1 << self.size) - 1
        kc = self.kcount
        # sub[A]: bitset over K of all K subset of A ; sup[R]: all K superset of R
        self.sub = [0] * kc
        self.sup = [0] * kc
        for A in range(kc):
            bits = 0
            sb = 0
            for K in range(kc):
                if K & ~A == 0:
                    bits |= 1 << K
                if A & ~K == 0:
                    sb |= 1 << K
            self.sub[A] = bits
            self.sup[A] = sb
        self.kfull = (1 << kc) - 1
        rep = 0
        for n in range(nmax + 1):
            rep |= 1 << (n * kc)
        self._rep = rep
        # pure calls: n == 0 or K == {}
        self.pure = self.kfull | rep   # n=0 block (all K) | K=0 bit of every block
        self._acc = {}
        self._excl = {}
        self._calls = None
        self.validated = 0          # model verdicts replayed against CPython
        self.validated_shapes = 0

    # -- helpers ---------------------------------------------------------
    def mask(self, names):
        m = 0
        for nm in names:
            m |= 1 << self.idx[nm]
        return m

    def all_n(self, kbits):
        """Replicate a bitset over K to every n block."""
        return kbits * self._rep

    def decode(self, bit):
        n, K = divmod(bit, self.kcount)
        return n, [self.names[i] for i in range(self.m) if K >> i & 1]

    def first(self, bits):
        """Lowest set bit -> (n, names)."""
        assert bits
        return self.decode((bits & -bits).bit_length() - 1)

    def iter_bits(self, bits):
        while bits:
            low = bits & -bits
            yield self.decode(low.bit_length() - 1)
            bits ^= low

    def call_bit(self, n, K):
        return 1 << (n * self.kcount + self.mask(K))

    # -- the model, bitset form -----------------------------------------
    def _compute(self, shape):
        idx = self.idx
        pos = [p for p in shape if p[1] in (PO, POK)]
        has_va = has_vk = False
        kwable = 0
        for name, kind, opt in shape:
            if kind == VA:
                has_va = True
            elif kind == VK:
                has_vk = True
            elif kind in (POK, KWO):
                kwable |= 1 << idx[name]
        req_kwo = 0
        for name, kind, opt in shape:
            if kind == KWO and not opt:
                req_kwo |= 1 << idx[name]
        kfull_mask = self.kcount - 1
        bits = 0
        for n in range(self.nmax + 1):
            if n > len(pos) and not has_va:
                break
            ok = True
            req = req_kwo
            forb = 0
            for i, (name, kind, opt) in enumerate(pos):
                if i < n:
                    if kind == POK:
                        forb |= 1 << idx[name]
                else:
                    if kind == PO:
                        if not opt:
                            ok = False
                            break
                    elif not opt:
                        req |= 1 << idx[name]
            if not ok:
                continue
            if has_vk:
                allowed = kfull_mask & ~forb
            else:
                allowed = kwable & ~forb
            if req & ~allowed:
                continue
            bits |= (self.sup[req] & self.sub[allowed]) << (n * self.kcount)
        return bits

    def acc(self, shape):
        """Acceptance bitset of ``shape`` -- computed by B, then replayed
        against a really-called compiled function (once per shape)."""
        try:
            return self._acc[shape]
        except KeyError:
            pass
        for p in shape:
            if p[0] not in self.idx:
                raise ModelMismatch('name %r of %s outside alphabet %r' % (p[0], show(shape), self.names))
        bits = self._compute(shape)
        self._validate(shape, bits)
        self._acc[shape] = bits
        return bits

    def calls(self):
        if self._calls is None:
            out = []
            for n in range(self.nmax + 1):
                a = (0,) * n
                for K in range(self.kcount):
                    out.append((a, dict((self.names[i], 0) for i in range(self.m) if K >> i & 1)))
            self._calls = out
        return self._calls

    def _validate(self, shape, bits):
        f = make_func(shape)
        real = 0
        bit = 1
        for a, k in self.calls():
            try:
                f(*a, **k)
            except TypeError:
                pass
            else:
                real |= bit
            bit <<= 1
        self.validated += self.size
        self.validated_shapes += 1
        if real != bits:
            diff = real ^ bits
            n, K = self.first(diff)
            raise ModelMismatch('binder model disagrees with CPython on %s for call n=%d K=%r: model=%s real=%s' % (
                show(shape), n, K, bool(bits & diff & -diff), bool(real & diff & -diff)))

    def excluded(self, shape):
        """Calls whose outcome is version dependent for this shape: a keyword
        naming a positional-only parameter next to **kwargs."""
        try:
            return self._excl[shape]
        except KeyError:
            pass
        bits = 0
        if any(p[1] == VK for p in shape):
            pom = 0
            for name, kind, _ in shape:
                if kind == PO:
                    pom |= 1 << self.idx[name]
            if pom:
                bits = self.full & ~self.all_n(self.sub[(self.kcount - 1) & ~pom])
        self._excl[shape] = bits
        return bits

    def noncolliding(self, result_shape, input_shapes, extra_kwpass=()):
        """Calls all of whose keywords are keyword-passable parameters of the
        result or are not parameter names of any input."""
        allowed = 0
        for name, kind, _ in result_shape:
            if kind in (POK, KWO):
                allowed |= 1 << self.idx[name]
        inames = 0
        for sh in input_shapes:
            for name, _, _ in sh:
                inames |= 1 << self.idx[name]
        allowed |= (self.kcount - 1) & ~inames
        return self.all_n(self.sub[allowed])

    def kw_disjoint(self, names):
        """Calls using none of ``names`` as keyword."""
        return self.all_n(self.sub[(self.kcount - 1) & ~self.mask(names)])

    def shift_accept(self, bits, n_extra, kmask_extra):
        """Bitset of calls (m, K) with K & kmask_extra == 0 such that
        (m + n_extra, K | kmask_extra) is in ``bits`` (and within nmax)."""
        out = 0
        kc = self.kcount
        for K in range(kc):
            if K & kmask_extra:
                continue
            K2 = K | kmask_extra
            for m in range(self.nmax + 1 - n_extra):
                if bits >> ((m + n_extra) * kc + K2) & 1:
                    out |= 1 << (m * kc + K)
        return out


def conformance_bind(alpha, shapes):
    """Also replay B against inspect.Signature.bind, recording the one known
    divergence (keyword naming a positional-only parameter next to **kwargs).
    Returns (compared, divergences_in_excluded_region)."""
    import inspect
    compared = div = 0
    for sh in shapes:
        bits = alpha.acc(sh)
        sig = inspect.signature(make_func(sh))
        excl = alpha.excluded(sh)
        bit = 1
        for a, k in alpha.calls():
            try:
                sig.bind(*a, **k)
                ok = True
            except TypeError:
                ok = False
            if ok != bool(bits & bit):
                if excl & bit:
                    div += 1
                else:
                    n, K = alpha.first(bit)
                    raise ModelMismatch('binder model disagrees with Signature.bind on %s n=%d K=%r' % (show(sh), n, K))
            compared += 1
            bit <<= 1
    return compared, div
