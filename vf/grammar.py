"""The forwarding-program grammar (DESIGN.md section 4, C05): program records,
their rendering to source, and the ground truth each record carries (which
call forwards which pristine star to which callee, how).

A *Prog* is plain data (hashable, JSON-able).  ``render(prog, uid)`` gives the
source of one snippet defining ``W<uid>`` (the object whose signature is
retrieved -- produced by ``target(ns, prog, uid)``) and its callees."""
import collections
import itertools

from vf import space
from vf.space import PO, POK, VA, KWO, VK

CallSpec = collections.namedtuple('CallSpec', 'callee npos names va vk')
#   callee: shape; npos: number of constant positionals; names: tuple of keyword names written
#   va / vk: 'own' (the wrapper's pristine star), 'none', 'other' (a foreign star: *OTHER_A / **OTHER_K),
#            'both' (own star combined with a second star: *args, *OTHER_A)
Prog = collections.namedtuple('Prog', 'outer calls context route taint')
#   context: see CONTEXTS; route: see ROUTES; taint: None | (kind, 'va'|'vk', 'before'|'after')

CONTEXTS = ('return', 'assign', 'if', 'ifelse', 'tryfinally', 'tryexcept', 'with', 'listcomp',
            'nested', 'lambda', 'decoy_before', 'decoy_after',
            'arg_of_call', 'nested_arg_of_call', 'lambda_arg_of_call', 'nested2', 'result_attr', 'ifelse_unres',
            'nested_ifelse_arg', 'decoy_shadow_nonlocal', 'shadow_nested', 'shadow_async', 'shadow_comp', 'forloop', 'nested_lambda', 'ifelse_same')
NESTED_CONTEXTS = ('nested', 'lambda', 'nested_arg_of_call', 'lambda_arg_of_call', 'nested2', 'nested_ifelse_arg', 'nested_lambda')
TWO_BRANCH_CONTEXTS = ('ifelse', 'ifelse_unres', 'nested_ifelse_arg', 'ifelse_same')
# the call is written with the wrapper's star names, but in a scope where those names are bound to something else (the
# parameters of a nested function, the targets of a comprehension): nothing of the wrapper's is forwarded
SHADOW_CONTEXTS = ('shadow_nested', 'shadow_async', 'shadow_comp')
ROUTES = ('global', 'closure', 'attr1', 'attr2', 'method', 'param', 'partial', 'wrapsdeco', 'helper', 'kpartial', 'partial_helper')
TAINTS_ANY = ('rebind', 'augassign', 'delrebind', 'fortarget', 'withas', 'walrus', 'starunpack', 'nonlocal',
              'importas', 'fromimportas', 'defname', 'classname', 'matchcapture', 'matchstar')
TAINTS_VK = ('methodcall', 'itemstore', 'handover', 'handoverkw', 'nested_methodcall', 'nested_itemstore',
             'nested_handover', 'nested_handoverkw', 'lambda_handover')


def star(outer, kind):
    return space.star_name(outer, kind)


def callee_ref(route, uid, j):
    base = 'C%s_%d' % (uid, j)
    if route in ('global', 'wrapsdeco', 'wrapssig', 'helper', 'partial_helper'):
        return base
    if route == 'kpartial':
        return 'KB%s_%d' % (uid, j)
    if route == 'closure':
        return 'cal%d' % j
    if route == 'attr1':
        return 'NS.' + base
    if route == 'attr2':
        return 'NS.sub.' + base
    if route == 'method':
        return 'self.' + base
    if route in ('param', 'param_nested', 'param_kwo', 'param_subclass', 'param_kw', 'param_default', 'param_method', 'method_default'):
        return 'fn%d' % j
    if route == 'partial':
        return base
    raise AssertionError(route)


def call_expr(prog, uid, j):
    cs = prog.calls[j]
    va_name, vk_name = star(prog.outer, VA), star(prog.outer, VK)
    parts = ['0'] * cs.npos
    if cs.va in ('own', 'both'):
        parts.append('*' + va_name)
    if cs.va in ('other', 'both'):
        parts.append('*OTHER_A')
    parts.extend('%s=0' % n for n in cs.names)
    if cs.vk in ('own', 'both'):
        parts.append('**' + vk_name)
    if cs.vk in ('other', 'both'):
        parts.append('**OTHER_K')
    # 'ifelse_same': both branches call the very same callee object, with different written arguments
    ref = callee_ref(prog.route, uid, 0 if prog.context == 'ifelse_same' else j)
    if prog.context == 'ifelse_unres' and j == 1:
        ref = 'UNRES%s[0]' % uid         # a callee no static reading can resolve
    if prog.route == 'partial':
        return 'functools.partial(%s)' % ', '.join([ref] + parts)
    if prog.route == 'helper':
        # through a helper that many wrappers share, each handing it another callee
        return 'APPLY(%s)' % ', '.join([ref] + parts)
    if prog.route == 'partial_helper':
        # a partial object over that helper: the callee is the first argument bound to it
        return 'functools.partial(%s)' % ', '.join(['APPLY', ref] + parts)
    return '%s(%s)' % (ref, ', '.join(parts))


def taint_stmts(prog):
    """Source lines of the taint statement, or []."""
    if not prog.taint:
        return []
    kind, which, _ = prog.taint
    name = star(prog.outer, VA if which == 'va' else VK)
    empty = '()' if which == 'va' else '{}'
    if kind == 'rebind':
        return ['%s = %s' % (name, empty)]
    if kind == 'augassign':
        return ['%s += ()' % name] if which == 'va' else ['%s |= {}' % name]
    if kind == 'delrebind':
        return ['del %s' % name, '%s = %s' % (name, empty)]
    if kind == 'fortarget':
        return ['for %s in (%s,):' % (name, empty), '    pass']
    if kind == 'withas':
        return ['with %s as %s:' % ('NULLCMT' if which == 'va' else 'NULLCM', name), '    pass']
    if kind == 'walrus':
        return ['(%s := %s)' % (name, empty)]
    if kind == 'starunpack':
        return ['*%s, = ()' % name] if which == 'va' else ['%s, *_ = ({},)' % name]
    if kind == 'nonlocal':
        return ['def taint_():', '    nonlocal %s' % name, '    %s = %s' % (name, empty), 'taint_()']
    if kind == 'importas':
        return ['import types as %s' % name, '%s = %s' % (name, empty)]
    if kind == 'fromimportas':
        return ['from types import SimpleNamespace as %s' % name, '%s = %s' % (name, empty)]
    if kind == 'defname':
        return ['def %s():' % name, '    pass', '%s = %s' % (name, empty)]
    if kind == 'classname':
        return ['class %s(object):' % name, '    pass', '%s = %s' % (name, empty)]
    if kind == 'matchcapture':
        return ['match %s:' % empty, '    case %s:' % name, '        pass']
    if kind == 'matchstar':
        if which == 'va':
            return ['match [1, 2]:', '    case [_, *%s]:' % name, '        %s = ()' % name]
        return ['match {"k_": 1}:', '    case {"k_": _, **%s}:' % name, '        %s = {}' % name]
    if kind == 'methodcall':
        return ["%s.pop('q', None)" % name]
    if kind == 'itemstore':
        return ["%s['q_'] = 1" % name, "del %s['q_']" % name]
    if kind == 'nested_methodcall':
        # the mutation happens in a helper that runs where the statement stands
        return ['def taint_():', "    %s.pop('q', None)" % name, 'taint_()']
    if kind == 'nested_handover':
        return ['def taint_():', '    SINK(%s)' % name, 'taint_()']
    if kind == 'nested_handoverkw':
        return ['def taint_():', '    SINK(opts=%s)' % name, 'taint_()']
    if kind == 'lambda_handover':
        return ['taint_ = lambda: SINK(%s)' % name, 'taint_()']
    if kind == 'nested_itemstore':
        return ['def taint_():', "    %s['q_'] = 1" % name, "    del %s['q_']" % name, 'taint_()']
    if kind == 'count':
        return ['%s.count(0)' % name]
    if kind == 'handover':
        return ['SINK(%s)' % name]
    if kind == 'handoverkw':
        return ['SINK(opts=%s)' % name]
    raise AssertionError(kind)


def body_lines(prog, uid):
    """Lines of the wrapper body (unindented)."""
    E = [call_expr(prog, uid, j) for j in range(len(prog.calls))]
    ctx = prog.context
    before = taint_stmts(prog) if prog.taint and prog.taint[2] == 'before' else []
    after = taint_stmts(prog) if prog.taint and prog.taint[2] == 'after' else []
    e0 = E[0]
    if ctx in ('ifelse', 'ifelse_unres', 'ifelse_same'):
        e1 = E[1] if len(E) > 1 else E[0]
        core = ['if FLAG:', '    r = ' + e0, 'else:', '    r = ' + e1]
    elif ctx == 'nested_ifelse_arg':
        # two forwarding calls in a nested function, the first one written inside the arguments of another call
        e1 = E[1] if len(E) > 1 else E[0]
        return (['def h_():', '    if FLAG:', '        return IDENT(' + e0 + ')', '    return ' + e1]
                + before + ['r = h_()'] + after + ['return r'])
    elif len(E) > 1:
        raise AssertionError('two calls only in the two-branch contexts')
    elif ctx == 'return':
        core = ['r = ' + e0] if (before or after) else None
        if core is None:
            return ['return ' + e0]
    elif ctx == 'assign':
        core = ['r = ' + e0]
    elif ctx == 'if':
        core = ['r = None', 'if FLAG:', '    r = ' + e0]
    elif ctx == 'tryfinally':
        core = ['try:', '    r = ' + e0, 'finally:', '    pass']
    elif ctx == 'tryexcept':
        core = ['try:', '    r = ' + e0, 'except KeyError:', '    raise']
    elif ctx == 'with':
        core = ['with NULLCM:', '    r = ' + e0]
    elif ctx == 'listcomp':
        core = ['r = [%s for i_ in (0,)][0]' % e0]
    elif ctx == 'nested':
        # the taint placement is relative to the *execution* of the call: h_() runs between them
        return ['def h_():', '    return ' + e0] + before + ['r = h_()'] + after + ['return r']
    elif ctx == 'lambda':
        return ['h_ = lambda: ' + e0] + before + ['r = h_()'] + after + ['return r']
    elif ctx == 'nested_arg_of_call':
        return ['def h_():', '    return IDENT(' + e0 + ')'] + before + ['r = h_()'] + after + ['return r']
    elif ctx == 'lambda_arg_of_call':
        return ['h_ = lambda: IDENT(' + e0 + ')'] + before + ['r = h_()'] + after + ['return r']
    elif ctx == 'nested_lambda':
        # two levels, the intermediate scope binds no name at all
        return ['def h_():', '    return (lambda: ' + e0 + ')()'] + before + ['r = h_()'] + after + ['return r']
    elif ctx == 'nested2':
        return ['def h_():', '    def g_():', '        return ' + e0, '    return g_()'] + before + ['r = h_()'] + after + ['return r']
    elif ctx == 'arg_of_call':
        core = ['r = IDENT(' + e0 + ')']
    elif ctx == 'result_attr':
        core = ['r = ' + e0 + '.real']
    elif ctx == 'forloop':
        # the body runs twice: a taint placed after the call ('loopafter') precedes the call of the second round
        inloop = taint_stmts(prog) if prog.taint and prog.taint[2] == 'loopafter' else []
        core = ['for i_ in (0, 1):', '    r = ' + e0] + ['    ' + ln for ln in inloop]
    elif ctx == 'decoy_before':
        core = ['DECOY(1, x=2)', 'r = ' + e0]
    elif ctx == 'decoy_after':
        core = ['r = ' + e0, 'DECOY(r)']
    elif ctx in ('shadow_nested', 'shadow_async'):
        cs = prog.calls[0]
        own = ', '.join((['*' + star(prog.outer, VA)] if cs.va == 'own' else []) + (['**' + star(prog.outer, VK)] if cs.vk == 'own' else []))
        core = ['%sdef h_(%s):' % ('async ' if ctx == 'shadow_async' else '', own), '    return ' + e0, 'r = h_']
    elif ctx == 'shadow_comp':
        cs = prog.calls[0]
        tg = ([star(prog.outer, VA)] if cs.va == 'own' else []) + ([star(prog.outer, VK)] if cs.vk == 'own' else [])
        vals = (['()'] if cs.va == 'own' else []) + (['{}'] if cs.vk == 'own' else [])
        core = ['r = [%s for %s in ((%s,),)]' % (e0, ', '.join(tg) + ',', ', '.join(vals))]
    elif ctx == 'decoy_shadow_nonlocal':
        # a helper with locals named like the wrapper's stars, rebound from a second-level helper through nonlocal:
        # Python binds nonlocal to the nearest enclosing scope, the wrapper's own stars stay pristine
        stars = [nm for nm in (star(prog.outer, VA), star(prog.outer, VK)) if nm]
        core = (['def h_():'] + ['    %s = 0' % nm for nm in stars] + ['    def g_():', '        nonlocal ' + ', '.join(stars)]
                + ['        %s = 1' % nm for nm in stars] + ['    g_()', '    return ' + ' or '.join(stars), 'h_()', 'r = ' + e0])
    else:
        raise AssertionError(ctx)
    return before + core + after + ['return r']


def callee_params(shape, route):
    txt = space.render(shape)
    if route == 'method':
        return 'self' + (', ' + txt if txt else '')
    return txt


def render(prog, uid):
    """Source of the snippet for one program."""
    lines = []
    ind = '    '
    outer_txt = space.render(prog.outer)
    n = len(prog.calls)
    if prog.route == 'method':
        lines.append('class K%s(object):' % uid)
        for j, cs in enumerate(prog.calls):
            lines.append(ind + 'def C%s_%d(%s):' % (uid, j, callee_params(cs.callee, 'method')))
            lines.append(ind * 2 + 'return 0')
        lines.append(ind + 'def W%s(self%s):' % (uid, ', ' + outer_txt if outer_txt else ''))
        lines.extend(ind * 2 + ln for ln in body_lines(prog, uid))
        return '\n'.join(lines) + '\n'
    for j, cs in enumerate(prog.calls):
        lines.append('def C%s_%d(%s):' % (uid, j, callee_params(cs.callee, prog.route)))
        lines.append(ind + 'return 0')
    if prog.context == 'ifelse_unres':
        lines.append('UNRES%s = [C%s_1]' % (uid, uid))
    if prog.route == 'kpartial':
        # the callee is a partial object over a helper translated by modifiers.kwoargs, binding the real callee
        for j in range(n):
            lines.append('KB%s_%d = functools.partial(KAPPLY, C%s_%d)' % (uid, j, uid, j))
    if prog.route in ('attr1', 'attr2'):
        holder = 'NS' if prog.route == 'attr1' else 'NS.sub'
        for j in range(n):
            lines.append('%s.C%s_%d = C%s_%d' % (holder, uid, j, uid, j))
    if prog.route == 'closure':
        lines.append('def MK%s(%s):' % (uid, ', '.join('cal%d' % j for j in range(n))))
        lines.append(ind + 'def W%s(%s):' % (uid, outer_txt))
        lines.extend(ind * 2 + ln for ln in body_lines(prog, uid))
        lines.append(ind + 'return W%s' % uid)
        lines.append('W%s = MK%s(%s)' % (uid, uid, ', '.join('C%s_%d' % (uid, j) for j in range(n))))
        return '\n'.join(lines) + '\n'
    if prog.route == 'param':
        fns = ', '.join('fn%d' % j for j in range(n))
        lines.append('def F%s(%s%s):' % (uid, fns, ', ' + outer_txt if outer_txt else ''))
        lines.extend(ind + ln for ln in body_lines(prog, uid))
        lines.append('W%s = functools.partial(F%s, %s)' % (uid, uid, ', '.join('C%s_%d' % (uid, j) for j in range(n))))
        return '\n'.join(lines) + '\n'
    if prog.route in ('param_kwo', 'param_subclass'):
        fns = ', '.join('fn%d' % j for j in range(n))
        if prog.route == 'param_kwo':
            # the forwarder is translated by modifiers.kwoargs: a parameter written before *args is keyword-only
            lines.append("@modifiers.kwoargs('opt_')")
            sh2 = (tuple(p for p in prog.outer if p[1] in (PO, POK)) + (('opt_', POK, True),)
                   + tuple(p for p in prog.outer if p[1] not in (PO, POK)))
            lines.append('def F%s(%s, %s):' % (uid, fns, space.render(sh2, {'opt_': 'None'})))
        else:
            lines.append('def F%s(%s%s):' % (uid, fns, ', ' + outer_txt if outer_txt else ''))
        lines.extend(ind + ln for ln in body_lines(prog, uid))
        cls = 'PARTIAL_SUBCLASS' if prog.route == 'param_subclass' else 'functools.partial'
        lines.append('W%s = %s(F%s, %s)' % (uid, cls, uid, ', '.join('C%s_%d' % (uid, j) for j in range(n))))
        return '\n'.join(lines) + '\n'
    if prog.route == 'param_nested':
        # the callee is bound by a partial object around another partial object, which functools leaves nested because the
        # inner one carries an attribute of its own
        fns = ', '.join('fn%d' % j for j in range(n))
        lines.append('def F%s(%s%s):' % (uid, fns, ', ' + outer_txt if outer_txt else ''))
        lines.extend(ind + ln for ln in body_lines(prog, uid))
        lines.append('Q%s = functools.partial(F%s)' % (uid, uid))
        lines.append('Q%s.tag = 1' % uid)
        lines.append('W%s = functools.partial(Q%s, %s)' % (uid, uid, ', '.join('C%s_%d' % (uid, j) for j in range(n))))
        return '\n'.join(lines) + '\n'
    if prog.route == 'param_method':
        # the forwarder is a bound method; the callee is a bound positional of the partial
        lines.append('class K%s(object):' % uid)
        lines.append(ind + 'def F(self, fn0%s):' % (', ' + outer_txt if outer_txt else ''))
        lines.extend(ind * 2 + ln for ln in body_lines(prog, uid))
        lines.append('W%s = functools.partial(K%s().F, C%s_0)' % (uid, uid, uid))
        return '\n'.join(lines) + '\n'
    if prog.route == 'method_default':
        # the forwarder is a bound method (discovery starts with self known); the callee is only the default value of a
        # keyword-only parameter: a caller may replace it, nothing about the default may be advertised
        sh2 = tuple(p for p in prog.outer if p[1] != VK) + (('fn0', KWO, True),) + tuple(p for p in prog.outer if p[1] == VK)
        lines.append('class K%s(object):' % uid)
        lines.append(ind + 'def W%s(self, %s):' % (uid, space.render(sh2, {'fn0': 'C%s_0' % uid})))
        lines.extend(ind * 2 + ln for ln in body_lines(prog, uid))
        return '\n'.join(lines) + '\n'
    if prog.route in ('param_kw', 'param_default'):
        # the callee arrives through a keyword-only parameter fn0: bound by keyword / only a default value
        opt = prog.route == 'param_default'
        sh2 = tuple(p for p in prog.outer if p[1] != VK) + (('fn0', KWO, opt),) + tuple(p for p in prog.outer if p[1] == VK)
        lines.append('def F%s(%s):' % (uid, space.render(sh2, {'fn0': 'C%s_0' % uid})))
        lines.extend(ind + ln for ln in body_lines(prog, uid))
        if opt:
            lines.append('W%s = functools.partial(F%s, 0)' % (uid, uid))
        else:
            lines.append('W%s = functools.partial(F%s, fn0=C%s_0)' % (uid, uid, uid))
        return '\n'.join(lines) + '\n'
    if prog.route == 'wrapssig':
        # functools.wraps over a function that carries an explicit __signature__ (with star parameters) of its own: wraps
        # copies it into the wrapper's __dict__, where it says nothing about what the wrapper's body does
        lines.append('def OLD%s(q_, *rest_, **opts_):' % uid)
        lines.append(ind + 'return 0')
        lines.append('OLD%s.__signature__ = inspect.signature(OLD%s)' % (uid, uid))
        lines.append('@functools.wraps(OLD%s)' % uid)
    if prog.route == 'wrapsdeco':
        # the same wrapper under a decorator that only wraps (functools.wraps + pass-through)
        lines.append('@ONLYWRAP')
    lines.append('def W%s(%s):' % (uid, outer_txt))
    lines.extend(ind + ln for ln in body_lines(prog, uid))
    return '\n'.join(lines) + '\n'


def target(batch, prog, uid):
    """(object to retrieve the signature of, list of callee objects as the wrapper reaches them, holder)"""
    if prog.route == 'method':
        cls = batch.get('K%s' % uid)
        inst = cls()
        same = prog.context == 'ifelse_same'
        return (getattr(inst, 'W%s' % uid), [getattr(inst, 'C%s_%d' % (uid, 0 if same else j)) for j in range(len(prog.calls))],
                inst)
    if prog.route == 'method_default':
        inst = batch.get('K%s' % uid)()
        return getattr(inst, 'W%s' % uid), [batch.get('C%s_%d' % (uid, j)) for j in range(len(prog.calls))], inst
    w = batch.get('W%s' % uid)
    same = prog.context == 'ifelse_same'
    return w, [batch.get('C%s_%d' % (uid, 0 if same else j)) for j in range(len(prog.calls))], None


# ---------------------------------------------------------------------------
# ground truth

def pristine(prog, j, which):
    """Does call j receive the wrapper's *pristine* star ``which`` ('va'|'vk')?"""
    cs = prog.calls[j]
    use = cs.va if which == 'va' else cs.vk
    if use != 'own' or prog.context in SHADOW_CONTEXTS:
        return False
    if prog.taint and prog.taint[1] == which and prog.taint[2] in ('before', 'loopafter') and taints(prog.taint):
        return False
    return True


def taints(taint):
    """A tuple cannot be changed by whoever receives it: handing *args over is no taint (a method call on it is
    read as 'handed to other code', the weaker demand)."""
    return not (taint[1] == 'va' and taint[0] in ('handover',))


def non_pristine(prog, which):
    """Is the wrapper's star ``which`` tainted as far as a *static* reading of the source can tell?  Before the call in
    execution order -- or, for calls in nested scopes (whose execution order is not static), anywhere in the body."""
    t = prog.taint
    return bool(t and t[1] == which and taints(t) and (t[2] in ('before', 'loopafter') or prog.context in NESTED_CONTEXTS))


def forwards_anything(prog):
    return any(pristine(prog, j, 'va') or pristine(prog, j, 'vk') for j in range(len(prog.calls)))


def to_json(prog):
    return {'outer': space.to_json(prog.outer),
            'calls': [{'callee': space.to_json(c.callee), 'npos': c.npos, 'names': list(c.names), 'va': c.va, 'vk': c.vk}
                      for c in prog.calls],
            'context': prog.context, 'route': prog.route, 'taint': list(prog.taint) if prog.taint else None}


def from_json(d):
    return Prog(space.from_json(d['outer']),
                tuple(CallSpec(space.from_json(c['callee']), c['npos'], tuple(c['names']), c['va'], c['vk']) for c in d['calls']),
                d['context'], d['route'], tuple(d['taint']) if d['taint'] else None)


def describe(prog, uid='X'):
    return render(prog, uid)


# ---------------------------------------------------------------------------
# enumerations

def outers(k, pool, both_names=False):
    """Wrapper shapes: at least one star parameter."""
    va = ('args', 'p') if both_names else ('args',)
    vk = ('kwargs', 'k') if both_names else ('kwargs',)
    out = []
    for s in space.universe(k, pool, va, vk):
        if not (space.has(s, VA) or space.has(s, VK)):
            continue
        # mixed naming pairs (args with k) add nothing: keep consistent pairs
        a, b = space.star_name(s, VA), space.star_name(s, VK)
        if a and b and (a == 'args') != (b == 'kwargs'):
            continue
        out.append(s)
    return out


def arg_shapes(outer, callee, max_npos, max_names, extra_names=('zz',), others=False):
    """Every way the wrapper can call the callee within the bounds: n constants, ordered name tuples from the
    callee's keyword-passable names + extra, each star used / not used (/ foreign)."""
    kw = space.kwpass(callee) + list(extra_names)
    va_opts = ['none'] + (['own'] if space.has(outer, VA) else []) + (['other'] if others else [])
    vk_opts = ['none'] + (['own'] if space.has(outer, VK) else []) + (['other'] if others else [])
    for npos in range(max_npos + 1):
        for r in range(max_names + 1):
            for names in itertools.permutations(kw, r):
                for va in va_opts:
                    for vk in vk_opts:
                        yield CallSpec(callee, npos, names, va, vk)
