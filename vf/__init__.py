"""Bounded-exhaustive model checking machinery for epsy/sigtools (see /verif/DESIGN.md)."""
