"""Really calling things: functions with distinguishable defaults whose body
returns ``locals()``, call lists with distinguishable argument values, and
outcome capture.  Used wherever a property speaks about *call behaviour*
(C12, C13, C18, C19, C20): the oracle is CPython executing a native twin."""
import inspect

from vf import space
from vf.space import PO, POK, VA, KWO, VK


def valued_src(shape, fname='f', annotate=False, first_self=False, body='return locals()'):
    """Source of ``def fname(<shape>)`` whose optional parameters default to
    the string 'd_<name>' (distinguishable) and, with ``annotate``, carry the
    string annotation 'A_<name>'."""
    defaults = dict((p[0], repr('d_' + p[0])) for p in shape if p[2])
    ann = dict((p[0], repr('A_' + p[0])) for p in shape) if annotate else None
    return 'def %s(%s):\n    %s\n' % (fname, space.render(shape, defaults, ann), body)


_VCACHE = {}


def valued_func(shape, annotate=False, cache=True):
    key = (shape, annotate)
    if cache and key in _VCACHE:
        return _VCACHE[key]
    ns = {'__name__': 'vfgen'}
    exec(compile(valued_src(shape, annotate=annotate), '<vf:%s>' % space.show(shape), 'exec'), ns)
    f = ns['f']
    f._vf_shape = shape
    if cache:
        _VCACHE[key] = f
    return f


def call_list(names, nmax, nmin=0):
    """Every (positional tuple, keyword dict) with n in nmin..nmax positionals
    valued ('p', i) and every subset of ``names`` as keywords valued
    ('k', name)."""
    names = tuple(names)
    out = []
    for n in range(nmin, nmax + 1):
        a = tuple(('p', i) for i in range(n))
        for m in range(1 << len(names)):
            out.append((a, dict((nm, ('k', nm)) for i, nm in enumerate(names) if m >> i & 1)))
    return out


def run_call(f, a, k):
    """('ok', value) | ('TypeError', msg) | ('raise', type name, msg)"""
    try:
        return ('ok', f(*a, **k))
    except TypeError as e:
        return ('TypeError', str(e))
    except Exception as e:  # noqa: classified
        return ('raise', type(e).__name__, str(e))


def same_outcome(x, y):
    if x[0] != y[0]:
        return False
    if x[0] == 'ok':
        return x[1] == y[1]
    if x[0] == 'raise':
        return x[1] == y[1]
    return True


def po_by_keyword(shape, k):
    """The version-dependent case every property excludes: a keyword naming a
    positional-only parameter next to **kwargs."""
    if not any(p[1] == VK for p in shape):
        return False
    return any(p[1] == PO and p[0] in k for p in shape)


def sig_accepts(sig, a, k):
    try:
        sig.bind(*a, **k)
        return True
    except TypeError:
        return False


def describe_call(a, k):
    return {'positionals': len(a), 'keywords': sorted(k)}


def param_tuple(sig):
    """(name, kind-int, default, annotation) per parameter, empty -> '<empty>'."""
    E = inspect.Parameter.empty
    return [(p.name, space.KIND_OF[p.kind], '<empty>' if p.default is E else p.default,
             '<empty>' if p.annotation is E else p.annotation) for p in sig.parameters.values()]


_CALLS = {}


def calls_for(shape, extra=('zz',)):
    """The call alphabet of a function shape: 0..P+1 positionals x every
    subset of (parameter names + star names + extra)."""
    names = tuple(p[0] for p in shape) + tuple(extra)
    npos = sum(1 for p in shape if p[1] in (PO, POK))
    key = (names, npos)
    if key not in _CALLS:
        _CALLS[key] = call_list(names, npos + 1)
    return _CALLS[key]
