"""Slices of the forwarding grammar: each a complete product over its own
stated sub-alphabet (nothing drawn at random).  Shared by C05 / C06 / C08."""
import itertools

from vf import space, grammar
from vf.grammar import Prog, CallSpec
from vf.space import PO, POK, VA, KWO, VK

_CACHE = {}


def sh(*params):
    return tuple(params)


A = ('a', POK, False)
B_OPT = ('b', KWO, True)
X = ('x', POK, False)
Y = ('y', POK, False)
Y_OPT = ('y', POK, True)
VA_ = ('args', VA, False)
VK_ = ('kwargs', VK, False)

# representative (outer, callee) pairs for the context/route/taint slices
PAIRS = [
    (sh(A, VA_, VK_), sh(X, Y_OPT, ('b', KWO, False))),
    (sh(VA_, VK_), sh(X, Y_OPT)),
    (sh(A, VK_), sh(X, ('y', KWO, True))),
    (sh(VA_), sh(X, Y)),
    (sh(A, ('p', VA, False), ('k', VK, False)), sh(X, VA_, VK_)),
    (sh(('a', PO, False), VA_, B_OPT, VK_), sh(('x', PO, False), Y)),
]
MORE_PAIRS = [
    (sh(A, VA_, VK_), sh(A, X)),                                  # clashing name
    (sh(('a', POK, True), VA_, VK_), sh(X, Y_OPT)),               # defaulted outer positional
    (sh(VA_, ('a', KWO, False), VK_), sh(X, ('y', KWO, False), VK_)),
    (sh(A, VA_), sh(VA_)),
    (sh(VK_), sh(('x', KWO, True), ('y', KWO, False))),
    (sh(A, VA_, VK_), sh()),
    (sh(A, VA_, VK_), sh(('x', PO, True), ('y', POK, True), VA_)),
    (sh(('a', PO, False), ('b', POK, True), VA_, VK_), sh(X, Y_OPT, VK_)),
]


def four_argshapes(outer, callee):
    hva, hvk = space.has(outer, VA), space.has(outer, VK)
    va = 'own' if hva else 'none'
    vk = 'own' if hvk else 'none'
    kw = space.kwpass(callee)
    out = [CallSpec(callee, 0, (), va, vk), CallSpec(callee, 1, (), va, vk)]
    if kw:
        out.append(CallSpec(callee, 0, (kw[-1],), va, vk))
    if hva and hvk:
        out.append(CallSpec(callee, 0, (), 'own', 'none'))
        out.append(CallSpec(callee, 0, (), 'none', 'own'))
    return out


def s1(tier):
    """shapes x argument shapes, plain return, global callee."""
    key = ('s1', tier)
    if key in _CACHE:
        return _CACHE[key]
    if tier == 'quick':
        outs = grammar.outers(1, 'a')
        callees = space.universe(2, 'xy') + [s for s in space.universe(2, 'ax') if any(p[0] == 'a' for p in s)]
        maxn, maxnames = 1, 1
    else:
        outs = grammar.outers(2, 'ab')
        callees = space.universe(2, 'xy') + [s for s in space.universe(2, 'ax') if any(p[0] == 'a' for p in s)]
        maxn, maxnames = 2, 2
    out = []
    for o in outs:
        for c in callees:
            for cs in grammar.arg_shapes(o, c, maxn, maxnames):
                if cs.va == 'none' and cs.vk == 'none':
                    continue
                out.append(Prog(o, (cs,), 'return', 'global', None))
    _CACHE[key] = out
    return out


def pairs(tier):
    return PAIRS + (MORE_PAIRS if tier == 'thorough' else [])


def s2(tier):
    """every context x every route, no taint, on the representative pairs x argument shapes."""
    out = []
    for (o, c) in pairs(tier):
        for cs in four_argshapes(o, c):
            for ctx in grammar.CONTEXTS:
                if ctx == 'ifelse_unres':
                    # a second forwarding call whose callee cannot be resolved (and which takes nothing)
                    out.append(Prog(o, (cs, CallSpec((), 0, (), cs.va, cs.vk)), ctx, 'global', None))
                    continue
                for route in grammar.ROUTES:
                    if ctx == 'result_attr' and route in ('partial', 'partial_helper'):
                        continue        # a partial object has no attribute every callee result has
                    if ctx == 'ifelse_same':
                        # the same callee object on both branches, the second call writes one more keyword
                        kw = [n for n in space.kwpass(c) if n not in cs.names]
                        if kw:
                            out.append(Prog(o, (cs, CallSpec(c, cs.npos, cs.names + (kw[-1],), cs.va, cs.vk)), ctx, route, None))
                        continue
                    if ctx in ('ifelse', 'nested_ifelse_arg'):
                        # two calls: same callee shape twice, and a second callee with one more optional parameter
                        other = c + (('zz', KWO, True),) if not space.has(c, VK) else c
                        if space.has(c, VK):
                            other = tuple(p for p in c if p[1] != VK) + (('zz', KWO, True), ('kwargs', VK, False))
                        # ... and a callee each call forwards to happily but whose requirements cannot be merged
                        nm = 'y' if 'y' not in space.names_of(c) else 'zz'
                        clash = ((nm, KWO, False),)
                        # ... and the same callee with its last required named parameter given a default: the first call
                        # still requires it
                        req = [q for q in c if q[1] in (POK, KWO) and not q[2]]
                        relaxed = None
                        if req:
                            relaxed = tuple((q[0], q[1], True) if q is req[-1] else q for q in c)
                            if not space.valid_shape(relaxed):
                                relaxed = None
                        for c2 in (c, other, clash) + ((relaxed,) if relaxed else ()):
                            cs2 = CallSpec(c2, 0 if c2 is clash else cs.npos, () if c2 is clash else cs.names, cs.va, cs.vk)
                            out.append(Prog(o, (cs, cs2), ctx, route, None))
                    else:
                        out.append(Prog(o, (cs,), ctx, route, None))
    return out


def s3(tier):
    """every taint x placement x contexts {return, if, nested, lambda} on the first pairs; plus foreign / combined stars."""
    out = []
    prs = pairs(tier)[:3] if tier == 'quick' else pairs(tier)
    for (o, c) in prs:
        va = 'own' if space.has(o, VA) else 'none'
        vk = 'own' if space.has(o, VK) else 'none'
        cs = CallSpec(c, 0, (), va, vk)
        for which, has_it in (('va', va == 'own'), ('vk', vk == 'own')):
            if not has_it:
                continue
            kinds = grammar.TAINTS_ANY + (grammar.TAINTS_VK if which == 'vk' else ('handover', 'count'))
            for kind in kinds:
                for place in ('before', 'after'):
                    for ctx in ('return', 'if', 'nested', 'lambda'):
                        out.append(Prog(o, (cs,), ctx, 'global', (kind, which, place)))
                if not kind.startswith(('nested_', 'lambda_')):
                    out.append(Prog(o, (cs,), 'forloop', 'global', (kind, which, 'loopafter')))
        # foreign and combined stars
        for va2 in ('own', 'none', 'other', 'both'):
            for vk2 in ('own', 'none', 'other', 'both'):
                if (va2 in ('own', 'both') and va != 'own') or (vk2 in ('own', 'both') and vk != 'own'):
                    continue
                if va2 in ('own', 'none') and vk2 in ('own', 'none'):
                    continue
                # under hide_args the count is not looked at (C03's reading): a foreign positional star comes with no
                # explicit positionals
                for n in ((0,) if va2 in ('other', 'both') else (0, 1)):
                    out.append(Prog(o, (CallSpec(c, n, (), va2, vk2),), 'return', 'global', None))
    return out


def s4(tier):
    """the callee is only the default value of a parameter, discovery is entered with known arguments (bound method)."""
    out = []
    for (o, c) in pairs(tier):
        for cs in four_argshapes(o, c):
            for ctx in ('return', 'assign', 'nested', 'arg_of_call'):
                out.append(Prog(o, (cs,), ctx, 'method_default', None))
            for ctx in ('return', 'if', 'nested'):
                out.append(Prog(o, (cs,), ctx, 'wrapssig', None))
    return out


def all_slices(tier):
    return [('S1 shapes x argument shapes (return, global)', s1(tier)),
            ('S2 contexts x routes', s2(tier)),
            ('S3 taints, foreign and combined stars', s3(tier)),
            ('S4 callee given as a parameter default; wrapper carrying a copied __signature__', s4(tier))]
