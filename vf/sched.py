"""Engine E5 -- stateless model checking of real threads under a controlled
scheduler (iterative context bounding).

Each thread runs one body under ``sys.settrace``; every ``line`` event of a
code object inside /repo/sigtools that belongs to the chosen point set is a
*scheduling point*.  Exactly one thread runs at any time (baton = one
semaphore per thread), so an execution is fully determined by its schedule:
``(priority, preemptions)`` -- ``priority`` is the order in which threads are
started / resumed whenever the running thread finishes (free switches),
``preemptions`` a list of ``(point index, target thread)`` (each costs one
pre-emption).  A replay whose point at a pre-emption index is not the recorded
(thread, label) has diverged: hard error.
"""
import itertools
import os
import sys
import threading

from vf import runner

SIGTOOLS_DIR = os.path.join(os.path.realpath(runner.REPO), 'sigtools') + os.sep

# functions that read or write state another thread can reach (the partial-order reduction "L-shared")
SHARED_FUNCS = {
    '_autoforwards.py': {'__enter__', '__exit__', 'autoforwards_function', 'autoforwards', 'autoforwards_method',
                         'autoforwards_partial', 'autoforwards_hint', 'autoforwards_ast'},
    '_signatures.py': {'signature', 'set_default_sources'},
    '_util.py': {'get_introspectable', 'iter_call', '__get__', 'safe_get', 'get_ast', 'cg'},
    '_specifiers.py': {'forged_signature'},
    'specifiers.py': {'__get__', '_sigtools__forger', 'set_signature_forger', '_transform', 'forwards_to_method',
                      'forwards_to_super', 'forwards', 'forwards_to_function', '_applier', '__init__'},
    'modifiers.py': {'_prepare', '__init__', '__new__', '_merge_other', '__call__', '_sigtools__autoforwards_hint'},
    'wrappers.py': {'__get__', '__init__', '_sigtools__forger', 'get_signature'},
}


# the functions that write shared state or read it straight before deciding (quick tier)
CRITICAL_FUNCS = {
    '_autoforwards.py': {'__enter__', '__exit__', 'autoforwards_function'},
    '_util.py': {'__get__'},
    'specifiers.py': {'__get__', '_sigtools__forger', '_transform'},
    'modifiers.py': {'_prepare', '__init__'},
    'wrappers.py': {'__get__', '__init__', '_sigtools__forger'},
}


class Diverged(Exception):
    pass


class Execution(object):
    __slots__ = ('trace', 'results', 'finished_at', 'npoints')


class Scheduler(object):
    def __init__(self, nthreads, pointset='shared'):
        self.n = nthreads
        self.pointset = pointset
        self._codes = {}

    # -- which code objects carry scheduling points ------------------------
    def tracked(self, code):
        try:
            return self._codes[code]
        except KeyError:
            pass
        fn = code.co_filename
        ok = fn.startswith(SIGTOOLS_DIR) and (os.sep + 'tests' + os.sep) not in fn
        if ok and self.pointset == 'shared':
            ok = code.co_name in SHARED_FUNCS.get(os.path.basename(fn), ())
        elif ok and self.pointset == 'critical':
            ok = code.co_name in CRITICAL_FUNCS.get(os.path.basename(fn), ())
        self._codes[code] = ok
        return ok

    def run(self, bodies, priority, preemptions, record=True):
        """One execution.  bodies: list of zero-argument callables (fresh objects bound by the caller)."""
        n = self.n
        go = [threading.Semaphore(0) for _ in range(n)]
        all_done = threading.Semaphore(0)
        done = [False] * n
        results = [None] * n
        trace = []
        finished_at = {}
        switches = dict((idx, (tgt, exp)) for idx, tgt, exp in preemptions)
        state = {'counter': 0, 'diverged': None, 'left': n}
        sched = self

        def next_after_finish():
            for t in priority:
                if not done[t]:
                    return t
            return None

        def make_tracer(i):
            def local(frame, event, arg):
                if event == 'line':
                    idx = state['counter']
                    state['counter'] = idx + 1
                    label = (frame.f_code.co_name, frame.f_lineno)
                    if record:
                        trace.append((i, label))
                    sw = switches.get(idx)
                    if sw is not None:
                        tgt, exp = sw
                        if exp is not None and exp != (i, label):
                            state['diverged'] = (idx, exp, (i, label))
                        elif not done[tgt] and tgt != i:
                            go[tgt].release()
                            go[i].acquire()
                return local

            def glob(frame, event, arg):
                if event == 'call' and sched.tracked(frame.f_code):
                    return local
                return None
            return glob

        def main(i):
            go[i].acquire()
            tr = make_tracer(i)
            sys.settrace(tr)
            try:
                try:
                    results[i] = ('ok', bodies[i]())
                except BaseException as e:  # noqa: an outcome, compared with the sequential one
                    results[i] = ('raise', type(e).__name__, str(e)[:200])
            finally:
                sys.settrace(None)
                done[i] = True
                finished_at[i] = state['counter']
                nxt = next_after_finish()
                if nxt is None:
                    all_done.release()
                else:
                    go[nxt].release()

        threads = [threading.Thread(target=main, args=(i,), daemon=True) for i in range(n)]
        for t in threads:
            t.start()
        go[priority[0]].release()
        if not all_done.acquire(timeout=60):
            raise runner.HarnessError('schedule did not terminate (deadlock?) priority=%r preemptions=%r' % (priority, preemptions))
        for t in threads:
            t.join(10)
        if state['diverged']:
            raise Diverged('replay diverged at point %d: expected %r, got %r' % state['diverged'])
        ex = Execution()
        ex.trace, ex.results, ex.finished_at, ex.npoints = trace, results, finished_at, state['counter']
        return ex


def alive_at(ex, n):
    """For every point index: set of threads not yet finished."""
    ends = sorted((idx, t) for t, idx in ex.finished_at.items())
    out = []
    alive = set(range(n))
    e = 0
    for idx in range(len(ex.trace)):
        while e < len(ends) and ends[e][0] <= idx:
            alive = alive - {ends[e][1]}
            e += 1
        out.append(alive)
    return out


def explore(sched, make_bodies, check, bound, priorities=None, first_range=None, stats=None):
    """Iterative context bounding: every schedule with at most ``bound`` pre-emptions.
    make_bodies() -> (bodies, context) on fresh objects; check(ex, context, schedule) is called for every execution.
    first_range=(lo, hi) restricts the index of the *first* pre-emption (sharding)."""
    n = sched.n
    count = 0
    for prio in (priorities or list(itertools.permutations(range(n)))):
        bodies, ctx = make_bodies()
        ex0 = sched.run(bodies, prio, [])
        if first_range is None or first_range[0] == 0:
            check(ex0, ctx, (prio, []))
            count += 1

        def rec(pre, ex, b, depth):
            nonlocal count
            if b == 0:
                return
            alive = alive_at(ex, n)
            start = pre[-1][0] + 1 if pre else 0
            lo, hi = start, len(ex.trace)
            if depth == 0 and first_range is not None:
                lo, hi = max(lo, first_range[0]), min(hi, first_range[1])
            for idx in range(lo, hi):
                running, label = ex.trace[idx]
                for t in sorted(alive[idx] - {running}):
                    pre2 = pre + [(idx, t, (running, label))]
                    bodies2, ctx2 = make_bodies()
                    ex2 = sched.run(bodies2, prio, pre2)
                    check(ex2, ctx2, (prio, pre2))
                    count += 1
                    rec(pre2, ex2, b - 1, depth + 1)
        rec([], ex0, bound, 0)
    return count
