"""Engine E6 -- explicit-state breadth-first search over operation histories on
live objects.

A state is the event history that reaches it; ``world = build(history)``
creates fresh objects and replays the operations on the real code (live
descriptors and weak dictionaries do not deep-copy).  States are deduplicated
on ``canon(world)`` -- everything mutable an operation can read; observations
are *not* part of the state: the oracle is evaluated per transition."""
import collections


def bfs(new_world, ops, apply_op, canon, check, max_depth, stats, prefix=()):
    """new_world() -> world; ops(world) -> list of operations enabled; apply_op(world, op) -> observation;
    canon(world) -> hashable; check(world, history, op, observation) is called for every transition.
    Returns (number of states, number of transitions, deepest level completed)."""
    def build(history):
        w = new_world()
        for op in history:
            apply_op(w, op)
        return w
    seen = {canon(build(tuple(prefix)))}
    frontier = collections.deque([tuple(prefix)])
    transitions = 0
    depth_done = 0
    while frontier:
        hist = frontier.popleft()
        if len(hist) >= max_depth:
            continue
        w0 = build(hist)
        enabled = ops(w0)
        del w0
        for op in enabled:
            w = build(hist)
            obs = apply_op(w, op)
            transitions += 1
            check(w, hist, op, obs)
            k = canon(w)
            if k not in seen:
                seen.add(k)
                frontier.append(hist + (op,))
                depth_done = max(depth_done, len(hist) + 1)
            del w
    stats.inc('states', len(seen))
    stats.inc('transitions', transitions)
    return len(seen), transitions, depth_done
